#!/usr/bin/env python3
"""Writes seeded/<name>/meta.json after tools/seed_confirm2.sh:  seed_meta.py NAME PROP 'summary' 'needs'"""
import json, os, subprocess, sys
name, prop, summary, needs = sys.argv[1:5]
d = os.path.join(os.path.dirname(os.path.dirname(os.path.abspath(__file__))), "seeded", name)
t, r0, r1 = open(os.path.join(d, ".confirm")).read().strip().split("|")
files = sorted({l[6:].strip() for l in open(os.path.join(d, "patch.diff")) if l.startswith("+++ b/")})
json.dump({"property": prop, "summary": summary, "needs": needs, "files": files,
           "confirmed": {"tests_with_change": t, "demo_exit_without_change": int(r0), "demo_exit_with_change": int(r1),
                         "how": "tools/seed_confirm2.sh: ctest on the changed build in the agent's scratch worktree, demo.sh on /repo/_build (unchanged HEAD) and on the changed build, git apply --check against /repo HEAD"}},
          open(os.path.join(d, "meta.json"), "w"), indent=1)
os.remove(os.path.join(d, ".confirm"))
