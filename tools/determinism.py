#!/usr/bin/env python3
"""Determinism of the simulator: every (VERIF_SEED, property, run) must give the same history whatever process executes it.

  tools/determinism.py [--runs N] [--seeds a,b,c] [PROP ...]

For every property and seed the first N cases are generated and executed three times: in pools of 3 and of 13 worker
processes (each worker owns its own simvm) and once more in a single fresh process in reverse order. The event-log
hashes of the three executions must be identical case by case. Exit 0 when they all are, 1 otherwise."""
import importlib
import multiprocessing
import os
import sys

sys.path.insert(0, os.path.dirname(os.path.dirname(os.path.abspath(__file__))))
from simlib.core import SimVM, ensure_build, rng_for, execute_case, history_hash   # noqa

PROPS = ["C02", "C03", "C04", "C05", "C07", "C08", "C10", "C11", "C12", "C15", "C16", "C17", "C18", "C19", "C20"]
_S = {}


def _init():
    _S["sim"] = SimVM()


def _one(arg):
    prop, seed, run = arg
    mod = importlib.import_module("simlib.props.%s" % prop.lower())
    rng = rng_for(seed, prop, run)
    case = mod.generate(rng, "quick", run)
    hs = execute_case(mod, _S["sim"], case)
    if hasattr(mod, "expand"):
        bigger = mod.expand(case, hs)
        if bigger is not None:
            hs = execute_case(mod, _S["sim"], bigger)
    return (prop, seed, run, [history_hash(h) for h in hs])


def main():
    args = sys.argv[1:]
    runs = 40
    seeds = [1, 2, 7]
    props = []
    while args:
        a = args.pop(0)
        if a == "--runs":
            runs = int(args.pop(0))
        elif a == "--seeds":
            seeds = [int(x) for x in args.pop(0).split(",")]
        else:
            props.append(a)
    props = props or PROPS
    ensure_build()
    jobs = [(p, s, r) for p in props for s in seeds for r in range(runs)]
    res = []
    for nw in (3, 13):
        with multiprocessing.Pool(nw, initializer=_init) as pool:
            res.append({(p, s, r): h for p, s, r, h in pool.imap_unordered(_one, jobs, chunksize=4)})
    with multiprocessing.Pool(1, initializer=_init) as pool:
        res.append({(p, s, r): h for p, s, r, h in pool.imap(_one, list(reversed(jobs)), chunksize=8)})
    bad = 0
    per = {}
    for j in jobs:
        same = res[0][j] == res[1][j] == res[2][j]
        per.setdefault(j[0], [0, 0])
        per[j[0]][0] += 1
        if not same:
            per[j[0]][1] += 1
            bad += 1
            if bad <= 10:
                print("DIVERGED", j, res[0][j], res[1][j], res[2][j])
    for p in props:
        print("%s: %d cases x 3 executions, %d diverged" % (p, per[p][0], per[p][1]))
    print("determinism: %d cases, %d diverged" % (len(jobs), bad))
    return 1 if bad else 0


if __name__ == "__main__":
    sys.exit(main())
