#!/usr/bin/env python3
"""Writes /verif/MANIFEST.json from the table below (one place to keep it consistent)."""
import json
import os
import subprocess

VERIF = os.path.dirname(os.path.dirname(os.path.abspath(__file__)))

TECH = "deterministic simulation with fault injection"

CHECKS = {
    "C02": dict(
        level="exploration", design="DESIGN.md §3 C02/C03",
        technique=TECH + ": typed random programs executed unscheduled and as interleaved scheduled scripts under seeded slice lengths, per-script marker traces compared with an executable reference interpreter",
        text="Seeded search over programs nesting if/exitWith/while/for/forEach/count/select/apply/findIf/switch/call/try-catch-throw/"
             "scopeName-breakOut/lazy and-or. Each program runs unscheduled or as one of 1-3 scheduled scripts whose slices (length 1..13 or "
             "drawn per slice) cut every frame behaviour at arbitrary instruction boundaries. The trace of markers (statement order and the "
             "value of each construct) must equal the reference interpreter's; no error-level diagnostic may appear. Sampling, not proof.",
        note="The reference interpreter (simlib/sqf.py, DESIGN.md appendix B) is the oracle and is trusted; programs are type-correct and "
             "terminating by construction; the value of a while construct is not compared."),
    "C03": dict(
        level="exploration", design="DESIGN.md §3 C02/C03",
        technique=TECH + ": typed random scoping programs under seeded interleaving with co-runners using the same names, compared with an executable reference interpreter",
        text="Same engine as C02 with the generator weighted towards private / private _x = / params / plain assignment across nested scopes, "
             "shadowing, reads of names whose scope has ended, code values called from other dynamic scopes, with-namespace blocks, "
             "getVariable/setVariable, spawn (sees none of the starter's locals) and random letter case. Co-running scheduled scripts use the "
             "same local names, so any leak between contexts or into the wrong namespace shows in the traces. Sampling, not proof.",
        note="execVM is exercised by the C16 check (needs files); trusted: reference interpreter, generator's static typing discipline."),
    "C04": dict(
        level="fault_enumeration", design="DESIGN.md §3 C04",
        technique=TECH + ": one error per run planted in every syntactic role or injected by the executor hook after dynamic instruction k for every k of a sampled program; reference interpreter with error completion plus run-result/flag rules",
        text="Engine A: typed random programs with at most one erroring operation (harness operator fault__ in statement, operand, condition, "
             "loop-body-result, last-value, handler-code and spawned-script position, or a natural error raised by an iteration behaviour), "
             "0..n nested except__ handlers, 1-3 runs on one VM, unscheduled or sliced; judged against the reference interpreter: no later "
             "statement runs, the nearest handler is entered exactly once with the error in _exception and execution continues after it, an "
             "unhandled error fails the run with a stack trace naming the failing statement, a fault-free run is never reported as failed, the "
             "error flag is clear afterwards. Engine B: for sampled programs PRE;{BODY} except__ {H};POST the hook raises an error after "
             "instruction k for EVERY k of the fault-free run (complete enumeration per program), followed by a second run on the same VM.",
        note="Fault positions are enumerated completely per sampled program (engine B); programs are sampled. Exact columns of reported "
             "locations are C14's subject and not asserted; CLI process exit status is not asserted."),
    "C05": dict(
        level="exploration", design="DESIGN.md §3 C05",
        technique=TECH + ": per-instruction operand-stack invariant monitor (I1-I6) inside the executor over seeded expression-heavy programs and slice schedules, cross-checked with the reference interpreter",
        text="Seeded search over expression-heavy programs whose operands are constructs that exit early, break out (1-3 frames, with and "
             "without value), throw, have an error caught inside them or end in a value-less statement; run unscheduled or as 2-4 scheduled "
             "scripts with slice lengths 1..7 so context switches fall between any two instructions. A C++ monitor checks after every "
             "instruction: I1 frame bases monotone and within the stack, I2 nothing left after a statement separator, I3 a left scope "
             "contributes exactly one value, I4 operands below a scope's base keep their identity on every path out of it, I5 a context's "
             "stack is untouched while it is not running, I6 loop iterations start at the same height. The marker trace is compared with the "
             "reference interpreter as an end-to-end cross-check.",
        note="The monitor reads frames/values through the guarded hooks (incl. on_frame_popped) and never modifies the VM; identity of an "
             "operand is the identity of its data object."),
    "C11": dict(
        level="exploration", design="DESIGN.md §3 C11",
        technique=TECH + ": virtual clock with seeded per-instruction cost puts the deadline at arbitrary instructions; histories of 1-4 runs per VM with clock advanced between runs; virtual-time bound, diagnostic, emptiness and loop-cap rules",
        text="Seeded search over histories of 1-4 runs on one VM. Each run loads a program from non-terminating families (every loop kind, "
             "recursion through call, scripts spawning each other, waitUntil {false}, everybody asleep past the deadline, sleep loops) or "
             "terminating ones; limit 5..500 ms; the virtual clock charges a seeded cost per instruction and poll, so the deadline falls at an "
             "arbitrary instruction, and is advanced (possibly far beyond the limit) between runs. Rules: the run ends (D1), within limit + "
             "slack of virtual time (D2), is reported by MaximumRuntimeReached and leaves the VM empty (D3), a run needing far less than the "
             "limit is never cut however old the VM is (D4). Loop cap: unscheduled while loops with max 1/2/10/10000 (plain, empty body, "
             "nested, erroring body, exitWith in body) evaluate their condition at most max+1 times (D5).",
        note="The limit is judged on the virtual clock only; slack = one instruction + 50 polls of the run's clock policy; idle time jumps are "
             "capped just behind the run's deadline so that time passes through it; each single operator call is assumed to terminate."),
    "C12": dict(
        level="exploration", design="DESIGN.md §3 C12",
        technique=TECH + ": seeded slice schedules and virtual clock over the real scheduler loop, rules R1-R7 over the recorded visit/slice/trace history",
        text="Seeded search over multi-script plans (2-6 spawned scripts with sleeps, waitUntil, scriptDone polls, terminate), slice "
             "schedules (fixed 1..150 or drawn per slice) and clock policies (cost per instruction/poll, forward jumps). Every run is "
             "judged by R1 round-robin walk over the live context list, R2 slice budget, R3 per-script projection equals the straight-line "
             "model, R4 wake-up time and waitUntil, R5 scriptDone, R6 terminate, R7 termination. Sampling, not proof.",
        note="Interleavings at instruction granularity via the slice-length hook; scripts are data-disjoint by construction; "
             "clock only moves forward; trusted: hooks in runtime.cpp, the harness operators t__/op events, the Python oracles."),
}

CHECKS["C19"] = dict(
    level="exploration", design="DESIGN.md §3 C19",
    technique=TECH + ": controller and executor run as real threads serialised by a seeded baton at instruction boundaries and at guarded yield sites inside runtime::execute; state-machine rules S1-S7 over the recorded action history",
    text="Seeded search over action sequences (start, stop, abort, assembly_step, line_step, leave_scope; <= 8 quick, <= 12 thorough) from "
         "every start situation (nothing loaded, 1-2 scripts loaded, finished, failed with error, halted by a step), issued by one thread or "
         "by a controller and an executor thread. The threads are real but only the baton holder runs; at every yield point (each "
         "instruction, each scheduler visit, after every compare-exchange, before every release of the run flag, between test and store "
         "of stop/abort) the seed decides who continues. Judged: S1 one executor at a time, S2 idle states, S3 action_error iff the run "
         "flag is held elsewhere, S4 step semantics (one instruction; line step stays on its line; leave_scope leaves), S5 stop/abort "
         "take effect within 3 instructions and leave the VM empty, S6 abort on halted discards all scripts, S7 no crash / livelock and "
         "the VM runs a fresh script afterwards.",
    note="Yield-point granularity, not a memory model: torn or reordered accesses to the plain state fields are not explored (TSan is blind "
         "under a serialising scheduler); evaluate_expression's busy-wait hand-shake is excluded; return values the documentation leaves "
         "open are not judged. One known finding is listed in KNOWN_FINDINGS.txt (line_step overruns by one instruction across a scope change).")

CHECKS["C18"] = dict(
    level="exploration", design="DESIGN.md §3 C18",
    technique=TECH + ": seeded histories of real API calls over 1-3 instances with the virtual clock advanced between calls, judged by an API model (codes, cookies, idle state, carry-over)",
    text="Seeded search over histories (<= 12 calls quick, <= 25 thorough) of the real exported functions over 1-3 instances: create (full, "
         "basic), load_config, call with every type byte and inputs whose outcome is known by construction (clean, preprocess error, parse "
         "error, runtime error early / as last statement / raised by an iteration behaviour / in a spawned script, non-terminating and cut "
         "by the limit, sleepers, global set/get, config get, preprocess-only, parse-only, bad type, null and bogus handles, malformed "
         "bytes), status, destroy. Judged: documented return code per class, every diagnostic of a call delivered with the instance's user "
         "data and the call's call data, status 0 and no pending script / error flag after every call, globals and config persist per "
         "instance and do not leak between instances, a clean call succeeds after any predecessor whatever the instance's age.",
    note="Calls on destroyed handles are not generated (a dangling pointer cannot be recognised by this API); the return code of exit__ is "
         "not judged; load_config has no call_data, only user_data is checked there.")
CHECKS["C07"] = dict(
    level="exploration", design="DESIGN.md §3 C07/C08",
    technique=TECH + ": 1-3 scheduled client scripts operate on aliased hashmaps and key arrays under seeded slice lengths; a reference dictionary with object identity replays the recorded operator events (the executing instruction is the linearisation point) and is compared after every statement; equality laws probed on separately built value pairs",
    text="Setup builds 3-5 roots (hashmaps and arrays, aliased through each other) in globals. 1-3 scheduled clients then issue generated "
         "single-operator statements (hashmap set, get, deleteAt, in, count, keys, createHashMapFromArray, +; pushBack / set / deleteAt / resize / "
         "reverse on arrays that are in use as keys) with keys from a pool built to collide: +0 and -0, strings differing in case, equal nested "
         "arrays, live arrays that get mutated after insertion, code, hashmaps. Seeded slice lengths interleave the clients at every "
         "instruction boundary. The simulator records the instruction that executes each statement's operator with the result rendered at "
         "that instant, and an atomic dump of all roots after every statement. A reference dictionary (keys captured by value, values by "
         "reference, copies independent) replays the operator events in history order; every result and every dump must agree. Before "
         "the clients run, 6-36 law probes evaluate isEqualTo in both directions, == where defined, and hash consistency (a one-entry "
         "hashmap looked up with the other value, in, count of a two-entry map) on pairs of separately constructed values; symmetry, "
         "reflexivity, transitivity, agreement with structural equality and 'equal implies same key' are judged.",
    note="Values containing nil/NaN and mutation of containers shared between a hashmap and its copy end exact judging for the run "
         "(16-20 % of runs, usually late); crash, hang and escaping exceptions stay judged.")

CHECKS["C08"] = dict(
    level="exploration", design="DESIGN.md §3 C07/C08",
    technique=TECH + ": 1-3 scheduled client scripts mutate a heap of aliased arrays/hashmaps under seeded slice lengths; a reference heap with object identity replays the recorded operator events and is compared with an atomic dump after every statement; self-insertion attempts through every inserting operator",
    text="Same engine as C07 with the array operator mix: set, pushBack, pushBackUnique, append, deleteAt, deleteRange, resize, reverse, sort, "
         "+a, a+b, a-b, select [i,n], select i, select {}, apply, count, find, in, isEqualTo, str, with in-range, equal-to-size, too-large "
         "and negative indices, and attempts to insert a container into itself directly, through an intermediate array literal and through an "
         "intermediate hashmap (also via hashmap set). Iteration constructs run with pure bodies (results judged unless another client "
         "changed the array meanwhile) and with bodies that shrink or rewrite the iterated array (safety only). The reference heap applies "
         "each operator at its recorded linearisation point: in-place operators change the one shared object (all aliases must show it), "
         "fresh-result operators create new objects, refused insertions and rejected indices leave everything unchanged. A dump that "
         "shows a cyclic structure where the reference heap has none is reported as cycle-created.",
    note="Outcomes the statement leaves open end exact judging for the run (about 16 % of runs): fractional indices are not generated; "
         "deleteRange arguments only where 'count' and 'last index' readings agree; sort of nested arrays; difference over nil elements; "
         "mutating bodies.")

CHECKS["C10"] = dict(
    level="fault_enumeration", design="DESIGN.md §3 C10",
    technique=TECH + ": stored source bytes cut or damaged at every point (all prefixes, every single-token deletion / duplication / opener replacement), include cycles over a scratch directory, delivered through every front-end entry point; result-xor-diagnostic, no crash, no hang, repeatable",
    text="For each sampled well-formed input (SQF printed from generated programs, config text, preprocessor input) the check enumerates "
         "EVERY prefix and single-token deletions, duplications and replacements by an opener (quotes, comment openers, brackets, #, "
         "backslash, NUL), plus nesting depth 1..200, self/mutual macro recursion, unterminated constructs at end of input and self / "
         "mutual / missing / empty / cut / directory #include over a real scratch tree. Each damaged text goes through one seeded entry: "
         "preprocessor, SQF parser, config parser (parse and check_syntax), the operators compile / preprocess__ / configparse__ / "
         "preprocessFile from a running script, sqfvm_call (s, p) and sqfvm_load_config. Judged: returns within the budget; a result or at "
         "least one error-level diagnostic; no signal, sanitizer report or escaping C++ exception; identical history when executed twice.",
    note="Claimed for damage of stored sources and include/macro cycles (the fault model); arbitrary byte strings are only sampled lightly. "
         "Prefix enumeration is complete per sampled input, token damage is capped per input in the quick tier; inputs are sampled. Time "
         "proportionality is judged as 'within the step / 10 s watchdog budget for inputs < 2 KiB'.")

CHECKS["C20"] = dict(
    level="exploration", design="DESIGN.md §3 C20",
    technique=TECH + ": one observed program is executed alone (twice), after generated disturbers in a later and in an earlier VM of the same process, and beside a disturber on a second real thread under a seeded baton schedule that switches threads at instruction granularity; byte-wise comparison of the observed instance's output across the arrangements",
    text="P = a generated program (control structures, scoping, namespaces; no time / random / sleep) framed by 5-9 probes of everything that could "
         "be process-wide: number formatting (str, format), __COUNTER__, #ifdef of a define, config classes, variables in all five namespaces under the "
         "names the disturbers write, type names of rarely used types, comparison results, supportInfo. Q1..Q3 = generated programs that use P's global "
         "names plus disturbing statements: toFixed n, __COUNTER__ uses, #define, configparse__, writes to every namespace, with-blocks, first "
         "use of types. Five executions per case, each in a fresh simulator process: P alone in the first VM (twice: determinism), P in a VM created "
         "after the Q ran in their own VMs (kept alive or destroyed), P in a VM created before them and run after them, and P beside Q1: two VMs "
         "on two real threads of which the baton lets one run at a time, the seed deciding at every instruction which. P's markers, diagnostics "
         "(level, code, text) and run result must be identical in all five.",
    note="The baton scheduler serialises the threads: a data race on unsynchronised process-wide state (first-use type registration in type.h) cannot "
         "show as corruption here, only as logical interference; stated as a limit in DESIGN.md.")

CHECKS["C15"] = dict(
    level="exploration", design="DESIGN.md §3 C15",
    technique=TECH + ": generated histories of 1-4 config loads through three real entry points (parser as the CLI uses it, configparse__ from a script, sqfvm_load_config between API calls) interleaved with probe scripts; executable reference tree as oracle; cycle attempts across loads judged for bounded termination and acyclicity",
    text="A generator that drives a shadow tree writes 1-4 config texts: nested classes (depth <= 3), single inheritance from names visible in an "
         "enclosing class, re-opening, forward declarations, delete of inherited entries, += on inherited arrays, numbers, strings with escapes "
         "and nested arrays, all names from a pool of five class and four value names so that shadowing is the rule. The texts are loaded in "
         "order through one of three entry points. After EVERY load a probe script asks, for every existing path (own and inherited), for a "
         "missing name and every deleted name below every class: isNull, isClass/isNumber/isText/isArray, getNumber/getText/getArray, configName, "
         "inheritsFrom, count, select 0..n-1 and configHierarchy. A reference tree (own entries in declaration order, base link, delete "
         "markers) answers the same probes; every answer must agree, every well-formed text must be accepted. 15 % of the histories end "
         "with a load that would make a class inherit from its own descendant or from itself; they are judged for bounded termination of "
         "all probes (watchdog) and for an acyclic inheritance relation as read back through inheritsFrom.",
    note="Histories the statement does not fix (base not visible, re-opening with another base, delete of an own entry, += over an own entry) "
         "are judged for safety only. Names are used in one spelling (case-insensitivity of config names is not part of the statement).")

CHECKS["C16"] = dict(
    level="exploration", design="DESIGN.md §3 C16",
    technique=TECH + ": seeded directory trees, mapping sets and request spellings against the real file layer over a scratch disk, with the resolved file deleted / truncated / turned into a directory between resolution and read; executable reference resolver as oracle, decoy files outside every root as containment probes",
    text="Per run a seeded directory tree is written to a scratch disk: 1-4 physical roots with files in sub folders whose names coincide with "
         "virtual prefix segments (so that shallower roots shadow deeper prefixes), include chains between them, and decoy files outside every "
         "root (parent, siblings, a sibling whose name extends a root's name). 1-5 mappings with nested, overlapping and duplicated prefixes "
         "and nested physical roots are installed. 6-20 requests are sent through impl_default::get_info + read_file, loadFile, preprocessFile, "
         "execVM and #include, spelled plainly, with backslashes, mixed and doubled separators, blanks, inner dir-ups, as traversal attempts "
         "towards the decoys, as absolute physical paths inside and outside the roots, as directories, as shadowed and as missing files. "
         "Every file holds a unique token naming its physical path. Judged against a reference resolver that implements the statement "
         "(deepest mapped prefix replaced by its directory, first root containing the file, nothing else): resolved file, content "
         "served, code run by execVM, files expanded by #include (depth-first order); never a decoy token, never a path outside the roots; "
         "not found where the statement says so; no crash or escaping exception also when the resolved file is deleted, truncated to 0-3 "
         "bytes or replaced by a directory before it is read (the disk is restored afterwards).",
    note="Relative includes whose virtual and physical reading lead to different files (the mappings reshape the tree) are judged for "
         "containment only: the statement does not say which directory of the including file is meant. Absolute physical requests "
         "inside a root are judged for containment only.")

CHECKS["C17"] = dict(
    level="fault_enumeration", design="DESIGN.md §3 C17",
    technique=TECH + ": archive images written by an independent packer are truncated at every length and corrupted at every header byte / length field before the real reader opens them through three paths; packed-bytes oracle, crash/hang/allocation/file-change monitors",
    text="An independent packer (written from the format, not from pbofile.hpp) builds archives from seeded file sets (0-8 entries, "
         "sub-folder names with backslashes, sizes 0..2 KiB incl. empty, binary content, properties incl. prefix, optional checksum "
         "trailer). Per archive the simulator writes: the intact image, EVERY truncation length, four byte values at every header byte, "
         "eight values at every length field, removed NUL terminators, and no file at all. Each image is opened through "
         "rvutils::pbo::pbofile::open, through impl_default::add_pbo_mapping + reads of every entry under the prefix (slash and "
         "backslash spellings), and through the CLI's --input-pbo. Judged: intact archive - properties, entry list and every entry's "
         "bytes exactly as packed, through all paths; damaged archive - refused, or every exposed entry byte-identical to the packed entry "
         "of that name; always - no crash, hang or escaping exception, largest single allocation <= 1 MiB + 16 x file size, directory "
         "listing and content hashes of the scratch directory unchanged.",
    note="Truncations and header damage are enumerated completely per sampled archive (capped per archive in the quick tier); archives "
         "are sampled. Five known findings (damage inside the entry table that still fits the file is undetectable without verifying the "
         "SHA-1 trailer) are listed in KNOWN_FINDINGS.txt and matched by (fault kind, region, claims-fit, symptom).")

NOT_APPLICABLE = {
    "C01": "pure function of source text and operator registry; a compile is one atomic instruction, so there is no schedule, clock, fault or carried state to simulate",
    "C06": "str/literal/pretty-printer round trips are pure functions of one value or text; nothing to simulate",
    "C09": "totality of a single operator call on one argument tuple: input generation, not simulation (sanitizers are on in all simulated runs, but the signature sweep is not claimed)",
    "C13": "text-to-text function compared with a reference expander; #include adds files but no fault or ordering the statement depends on",
    "C14": "reported file/line/column is a pure function of the source layout; no schedule or fault dimension",
}

PENDING = {
}


def main():
    props = [json.loads(l)["id"] for l in open(os.path.join(VERIF, "properties.jsonl"))]
    # every commit that touches the guarded hooks (their subject names the guard; none of them starts with "fix:")
    hooks_commit = subprocess.run(["git", "-C", "/repo", "log", "--reverse", "--format=%h", "--grep=SQFVM_RUNTIME_VERIF"],
                                  stdout=subprocess.PIPE, text=True).stdout.split()
    checks = []
    for pid in props:
        if pid not in CHECKS:
            continue
        c = CHECKS[pid]
        checks.append({
            "property_id": pid,
            "quick_cmd": "python3 checks/check.py %s --tier quick" % pid,
            "thorough_cmd": "python3 checks/check.py %s --tier thorough" % pid,
            "evidence_file": "evidence/%s.json" % pid,
            "replay_cmd_template": "python3 checks/check.py %s --replay {path}" % pid,
            "engine": "simvm",
            "level_claimed": {"category": c["level"], "text": c["text"], "design_ref": c["design"]},
            "level_note": c["note"],
            "technique": c["technique"],
        })
    na = []
    for pid in props:
        if pid in CHECKS:
            continue
        if pid in NOT_APPLICABLE:
            na.append({"property_id": pid, "reason": NOT_APPLICABLE[pid]})
        else:
            na.append({"property_id": pid, "reason": PENDING.get(pid, "not claimed yet: the simulation check for this property is still under construction (see DESIGN.md §7)")})
    m = {
        "version": 1,
        "setup_cmd": "python3 tools/build.py",
        "hooks": {
            "guard": "SQFVM_RUNTIME_VERIF",
            "enable": "tools/build.py compiles every /repo/src translation unit (except unused/, sqc/, cli/main.cpp) with clang++-14 "
                      "-DSQFVM_RUNTIME_VERIF -fsanitize=address,undefined -fno-sanitize=vptr into /verif/build and links sim/*.cpp into simvm; "
                      "every check starts with this (incremental, under a flock)",
            "baseline_off_cmd": "bash tools/baseline_off.sh",
            "source_commits": hooks_commit,
            "add_only": True,
        },
        "engines": [{
            "name": "simvm", "path": "sim/",
            "serves_properties": sorted(CHECKS),
            "kind_free_text": "C++ executor linked against the real SQF-VM objects (hooks on, ASan+UBSan): one forked child per plan, virtual "
                              "clock and rand via link-time wraps, seeded slice schedule, fault injection at instruction granularity, baton "
                              "scheduler for logical threads; driven by the Python library simlib/ (generators, reference models, oracles, "
                              "shrinker, replay, evidence)",
        }],
        "checks": checks,
        "notes": "Checks take VERIF_SEED (default 1) and VERIF_TIER. exit 2 = harness failure (build, non-deterministic replay), never a verdict. "
                 "Known findings: KNOWN_FINDINGS.txt. Sensitivity mutants: tools/mutants.py.",
        "not_applicable": na,
    }
    with open(os.path.join(VERIF, "MANIFEST.json"), "w") as f:
        json.dump(m, f, indent=1)
    print("MANIFEST.json: %d checks, %d not claimed" % (len(checks), len(na)))


if __name__ == "__main__":
    main()
