#!/bin/bash
# Confirms a seeded change produced in a scratch worktree and files it under /verif/seeded/<name>.
#   tools/seed_confirm.sh /tmp/seed_c05 c05_breakout_hoisted_clear [demo-arg-kind: bin|dir]
# Checks: patch applies to a clean copy of HEAD, the 41 tests pass with it, demo exits 1 with / 0 without the change.
set -u
W=$1; NAME=$2; KIND=${3:-bin}
D=/verif/seeded/$NAME
[ -f "$W/SEED/patch.diff" ] || { echo "no patch"; exit 2; }
T=$(ctest --test-dir "$W/_b" -j8 2>&1 | grep -E "tests passed|tests failed" | tail -1)
echo "tests with change: $T"
if [ "$KIND" = bin ]; then A_ORIG=$W/_orig/sqfvm; A_B=$W/_b/sqfvm; else A_ORIG=$W/_orig; A_B=$W/_b; fi
bash "$W/SEED/demo.sh" "$A_ORIG" > /tmp/demo_orig.out 2>&1; R0=$?
bash "$W/SEED/demo.sh" "$A_B" > /tmp/demo_b.out 2>&1; R1=$?
echo "demo without change: exit $R0; with change: exit $R1"
git -C /repo apply --check "$W/SEED/patch.diff" && echo "patch applies to /repo HEAD"
case "$T" in *"100% tests passed"*) ;; *) echo "NOT CONFIRMED (tests)"; exit 1;; esac
[ "$R0" = 0 ] && [ "$R1" = 1 ] || { echo "NOT CONFIRMED (demo)"; exit 1; }
mkdir -p "$D"
cp "$W/SEED/patch.diff" "$D/patch.diff"
cp "$W"/SEED/demo* "$D/" 2>/dev/null
for f in "$W"/SEED/*; do case "$f" in *patch.diff|*meta.json|*demo*) ;; *) cp "$f" "$D/";; esac; done
python3 - "$W/SEED/meta.json" "$D/meta.json" "$T" "$R0" "$R1" <<'PY'
import json,sys
m=json.load(open(sys.argv[1]))
m["confirmed"]={"tests_with_change":sys.argv[3],"demo_exit_without_change":int(sys.argv[4]),"demo_exit_with_change":int(sys.argv[5]),
  "how":"tools/seed_confirm.sh: ctest on the changed build in the scratch worktree, demo.sh on the unchanged and the changed build, git apply --check against /repo HEAD"}
json.dump(m,open(sys.argv[2],"w"),indent=1)
PY
echo "CONFIRMED -> $D"
