#!/usr/bin/env python3
"""Regenerates the generated blocks of DESIGN.md (between <!-- gen:NAME --> and <!-- /gen:NAME -->):
   fixes      from KNOWN_FINDINGS.txt (fixed: lines, grouped by property)
   findings   from KNOWN_FINDINGS.txt (finding: lines)
   seeded     from seeded/*/meta.json and notes/mutants_sweep.txt (which key caught it)
   mutants    from notes/mutants_sweep.txt (per property: caught / total)"""
import glob
import json
import os
import re

VERIF = os.path.dirname(os.path.dirname(os.path.abspath(__file__)))


def sweep():
    out = {}
    p = os.path.join(VERIF, "notes", "mutants_sweep.txt")
    if not os.path.exists(p):
        return out
    for l in open(p):
        m = re.match(r"(\S+)\s+(caught|MISSED|APPLY-FAILED|harness-error)\s+(\d+s)?\s*(.*)", l)
        if m:
            key = re.search(r"key=(\S+)", m.group(4))
            out[m.group(1)] = (m.group(2), key.group(1) if key else "")
    return out


def block_fixes():
    by = {}
    for l in open(os.path.join(VERIF, "KNOWN_FINDINGS.txt")):
        m = re.match(r"fixed: property=(C\d+) (\S+) (.*)", l)
        if m:
            by.setdefault(m.group(1), []).append((m.group(2), m.group(3).strip()))
    out = []
    for p in sorted(by):
        out.append("* **%s** (%d)" % (p, len(by[p])))
        for h, t in by[p]:
            out.append("  * `%s` %s" % (h, t[:260] + ("…" if len(t) > 260 else "")))
    return "\n".join(out)


def block_findings():
    out = []
    for l in open(os.path.join(VERIF, "KNOWN_FINDINGS.txt")):
        m = re.match(r"finding: property=(C\d+) key=(\S+) (.*)", l)
        if m:
            out.append("* **%s** `%s` — %s" % (m.group(1), m.group(2), m.group(3).strip()))
    return "\n".join(out)


def block_seeded():
    sw = sweep()
    out = ["| seeded change | property | what it needs | caught by (first violation key of the quick check) |", "|---|---|---|---|"]
    for d in sorted(glob.glob(os.path.join(VERIF, "seeded", "*"))):
        mp = os.path.join(d, "meta.json")
        if not os.path.exists(mp):
            continue
        m = json.load(open(mp))
        name = os.path.basename(d)
        res = sw.get("seeded/" + name, ("not run", ""))
        needs = re.sub(r"\s+", " ", m.get("needs", ""))[:200].replace("|", "/")
        out.append("| `%s` | %s | %s… | %s `%s` |" % (name, m["property"], needs, res[0], res[1]))
    return "\n".join(out)


def block_mutants():
    sw = sweep()
    per = {}
    for name, (res, key) in sw.items():
        if name.startswith("seeded/"):
            continue
        p = name.split("_")[0]
        per.setdefault(p, []).append((name, res, key))
    out = ["| property | mutants | caught | names |", "|---|---|---|---|"]
    for p in sorted(per):
        c = sum(1 for x in per[p] if x[1] == "caught")
        out.append("| %s | %d | %d | %s |" % (p, len(per[p]), c, ", ".join("`%s`" % x[0][len(p) + 1:] + ("" if x[1] == "caught" else " (**%s**)" % x[1]) for x in per[p])))
    return "\n".join(out)


def main():
    p = os.path.join(VERIF, "DESIGN.md")
    s = open(p).read()
    for name, fn in (("fixes", block_fixes), ("findings", block_findings), ("seeded", block_seeded), ("mutants", block_mutants)):
        a = "<!-- gen:%s -->" % name
        b = "<!-- /gen:%s -->" % name
        if a in s and b in s:
            i = s.index(a) + len(a)
            j = s.index(b)
            s = s[:i] + "\n" + fn() + "\n" + s[j:]
    open(p, "w").write(s)


if __name__ == "__main__":
    main()
