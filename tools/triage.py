#!/usr/bin/env python3
"""tools/triage.py PROP RUNS [KEYSUBSTR] : run cases in-process (no shrinking) and print the first detail per key"""
import importlib, os, sys
sys.path.insert(0, os.path.dirname(os.path.dirname(os.path.abspath(__file__))))
from simlib.core import SimVM, ensure_build, rng_for, execute_case
prop, runs = sys.argv[1], int(sys.argv[2])
sub = sys.argv[3] if len(sys.argv) > 3 else ""
mod = importlib.import_module("simlib.props.%s" % prop.lower())
ensure_build()
vm = SimVM()
seen = {}
for run in range(runs):
    rng = rng_for(int(os.environ.get("VERIF_SEED", "1")), prop, run)
    case = mod.generate(rng, "quick", run)
    hs = execute_case(mod, vm, case)
    for v in mod.judge(case, hs):
        if sub in v.key and v.key not in seen:
            seen[v.key] = run
            print("=== run %d key=%s\n%s" % (run, v.key, v.detail[:1800]))
            if os.environ.get("SHOW"):
                import json
                print(json.dumps(mod.sample_view(case), indent=1)[:3000])
vm.close()
print("keys:", len(seen))
