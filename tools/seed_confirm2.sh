#!/bin/bash
# Second-layout variant of seed_confirm.sh: the agent's worktree holds the change applied and built in $W/_build,
# results in $W/_seed (patch.diff, demo.sh, NOTES.md); the unchanged build is /repo/_build (HEAD, release).
#   tools/seed_confirm2.sh /tmp/seed2_c02 c02_some_name
set -u
W=$1; NAME=$2
D=/verif/seeded/$NAME
[ -f "$W/_seed/patch.diff" ] || { echo "no patch"; exit 2; }
git -C "$W" diff --quiet -- src || true
# the worktree must contain exactly the patch
( cd "$W" && git diff -- src > /tmp/_wt.diff ); cmp -s /tmp/_wt.diff "$W/_seed/patch.diff" || echo "note: worktree diff differs from patch.diff (re-checking by apply)"
git -C /repo apply --check "$W/_seed/patch.diff" || { echo "NOT CONFIRMED (patch does not apply to /repo HEAD)"; exit 1; }
cmake --build "$W/_build" -j16 2>&1 | tail -1
T=$(ctest --test-dir "$W/_build" -j8 --timeout 900 2>&1 | grep -E "tests passed|tests failed" | tail -1)
echo "tests with change: $T"
( cd "$W/_seed" && bash ./demo.sh /repo/_build > /tmp/demo_orig.out 2>&1 ); R0=$?
( cd "$W/_seed" && bash ./demo.sh "$W/_build" > /tmp/demo_b.out 2>&1 ); R1=$?
echo "demo without change: exit $R0; with change: exit $R1"
case "$T" in *"100% tests passed"*) ;; *) echo "NOT CONFIRMED (tests)"; exit 1;; esac
[ "$R0" = 0 ] && [ "$R1" != 0 ] || { echo "NOT CONFIRMED (demo)"; tail -5 /tmp/demo_orig.out /tmp/demo_b.out; exit 1; }
mkdir -p "$D"
for f in "$W"/_seed/*; do [ -f "$f" ] && cp "$f" "$D/"; done
echo "$T|$R0|$R1" > "$D/.confirm"
echo "CONFIRMED -> $D"
