#!/bin/bash
# Builds /repo with plain cmake (guard OFF) in a scratch directory, runs the 41 ctest cases, removes the directory.
set -e
D=$(mktemp -d /var/tmp/verif-baseline-XXXXXX)
trap 'rm -rf "$D"' EXIT
cmake -G Ninja -S /repo -B "$D" -DCMAKE_BUILD_TYPE=RelWithDebInfo > "$D/configure.log" 2>&1 || { tail -50 "$D/configure.log"; exit 2; }
cmake --build "$D" -j "$(nproc)" > "$D/build.log" 2>&1 || { tail -50 "$D/build.log"; exit 2; }
ctest --test-dir "$D" -j8 --timeout 900 2>&1 | tail -15
exit ${PIPESTATUS[0]}
