#!/usr/bin/env python3
"""Run an SQF snippet in the simulator and print the markers, diagnostics and the action result.
   tools/probe.py 'code' [--sched] [--ops name,name]"""
import json, os, sys
sys.path.insert(0, os.path.dirname(os.path.dirname(os.path.abspath(__file__))))
from simlib.core import SimVM, ensure_build

def main():
    args = sys.argv[1:]
    sched = "--sched" in args
    ops = []
    if "--ops" in args:
        ops = args[args.index("--ops") + 1].split(",")
    code = args[0]
    ensure_build()
    plan = {"prop": "probe", "steps": [{"do": "vm_new", "vm": "a", "conf": {"print_work": False}},
            {"do": "load", "vm": "a", "text": code, "name": "probe.sqf", "sched": sched},
            {"do": "action", "vm": "a", "name": "start"}, {"do": "state", "vm": "a"}],
            "clock": {"per_instr_ns": 1000, "per_poll_ns": 100, "idle_jump": True},
            "limits": {"max_instr": 200000, "max_events": 100000, "watchdog_s": 20},
            "observe": {"visits": False, "slices": False, "ops": ops}}
    vm = SimVM()
    h = vm.run(plan)
    vm.close()
    if "crash" in h:
        print("CRASH", json.dumps(h["crash"])[:3000])
        return
    for e in h["events"]:
        if e[1] == "t":
            print("T  ", e[4])
        elif e[1] == "log":
            print("LOG", e[3], e[4], e[8][:200])
        elif e[1] == "op":
            print("OP ", e[4], "->", e[5], "@", e[6])
        elif e[1] == "act":
            print("ACT", e[4], "res", e[5], "exc", e[12])
main()
