#!/usr/bin/env python3
"""Sensitivity: apply each mutant patch to /repo, run the quick check of its property, undo the patch.

  tools/mutants.py [PATTERN] [--runs N]

Patches live in tools/mutants/<PROP>_<name>.diff and seeded/<id>/patch.diff (meta.json names the property).
A mutant counts as caught when the check exits 1. /repo is restored after every mutant (git checkout -- .).
Never run while other checks are using /repo.
"""
import glob
import json
import os
import subprocess
import sys
import time

VERIF = os.path.dirname(os.path.dirname(os.path.abspath(__file__)))
REPO = "/repo"


def sh(*a, **k):
    return subprocess.run(*a, stdout=subprocess.PIPE, stderr=subprocess.STDOUT, text=True, **k)


def main():
    pat = ""
    runs = None
    args = sys.argv[1:]
    while args:
        a = args.pop(0)
        if a == "--runs":
            runs = args.pop(0)
        else:
            pat = a
    items = []
    for p in sorted(glob.glob(os.path.join(VERIF, "tools", "mutants", "*.diff"))):
        name = os.path.basename(p)[:-5]
        items.append((name, name.split("_")[0], p))
    for d in sorted(glob.glob(os.path.join(VERIF, "seeded", "*"))):
        meta = os.path.join(d, "meta.json")
        if os.path.exists(meta) and os.path.exists(os.path.join(d, "patch.diff")):
            m = json.load(open(meta))
            items.append(("seeded/" + os.path.basename(d), m["property"], os.path.join(d, "patch.diff")))
    st = sh(["git", "-C", REPO, "status", "--porcelain", "--untracked-files=no"])
    if st.stdout.strip():
        print("refusing: /repo has uncommitted changes to tracked files")
        return 2
    results = []
    for name, prop, patch in items:
        if pat and pat not in name:
            continue
        r = sh(["git", "-C", REPO, "apply", patch])
        if r.returncode != 0:
            print("%-50s APPLY-FAILED %s" % (name, r.stdout.strip()[:200]))
            results.append((name, "apply-failed"))
            continue
        t0 = time.time()
        before = set(os.listdir(os.path.join(VERIF, "replays"))) if os.path.isdir(os.path.join(VERIF, "replays")) else set()
        try:
            cmd = [sys.executable, os.path.join(VERIF, "checks", "check.py"), prop]
            if runs:
                cmd += ["--runs", runs]
            env = dict(os.environ)
            env["VERIF_MUTANT"] = "1"
            r = sh(cmd, env=env, cwd=VERIF)
        finally:
            sh(["git", "-C", REPO, "checkout", "--", "."])
            if os.path.isdir(os.path.join(VERIF, "replays")):
                for fn in set(os.listdir(os.path.join(VERIF, "replays"))) - before:
                    os.remove(os.path.join(VERIF, "replays", fn))     # replay files of a mutant are not findings
        lines = [l for l in r.stdout.splitlines() if l.startswith("VIOLATION") or l.startswith("  rule=")]
        verdict = {0: "MISSED", 1: "caught", 2: "harness-error"}.get(r.returncode, "exit%d" % r.returncode)
        print("%-50s %-13s %5.0fs  %s" % (name, verdict, time.time() - t0, (lines[1].strip()[:150] if len(lines) > 1 else r.stdout.strip().splitlines()[-1][:150] if r.stdout.strip() else "")), flush=True)
        results.append((name, verdict))
    # restore build and evidence for the unchanged tree
    subprocess.run([sys.executable, os.path.join(VERIF, "tools", "build.py"), "-q"])
    subprocess.run(["git", "-C", VERIF, "checkout", "--", "evidence"], stderr=subprocess.DEVNULL)
    missed = [n for n, v in results if v != "caught"]
    print("mutants: %d run, %d caught, not caught: %s" % (len(results), len(results) - len(missed), missed))
    return 0


if __name__ == "__main__":
    sys.exit(main())
