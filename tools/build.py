#!/usr/bin/env python3
"""Build /repo's current working tree (hooks on, ASan+UBSan) plus the simvm executor.

Every check calls this first (under a flock) so that it always tests the current tree.
Output goes to /verif/build (ignored by git). A no-op rebuild costs < 2 s.
"""
import fcntl, glob, os, subprocess, sys, hashlib

VERIF = os.path.dirname(os.path.dirname(os.path.abspath(__file__)))
REPO = os.environ.get("VERIF_REPO", "/repo")
BUILD = os.environ.get("VERIF_BUILD", os.path.join(VERIF, "build"))
CXX = "clang++-14"
SAN = os.environ.get("VERIF_SAN", "-fsanitize=address,undefined -fno-sanitize=vptr -fno-sanitize-recover=undefined")
OPT = os.environ.get("VERIF_OPT", "-O1")
CXXFLAGS = (
    "-std=c++17 -g1 -fno-omit-frame-pointer "
    "-DNDEBUG -D_GLIBCXX_ASSERTIONS -DSQFVM_RUNTIME_VERIF -DSQFVM_BUILD -DDISABLE_CLIPBOARD -w "
    f"-I{REPO}/src -I{REPO}/include/tclap-1.2.2/include"
)
LDFLAGS = (
    SAN + " -pthread -ldl "
    "-Wl,--wrap=_ZNSt6chrono3_V212system_clock3nowEv "
    "-Wl,--wrap=_ZNSt6chrono3_V212steady_clock3nowEv "
    "-Wl,--wrap=rand"
)


def repo_sources():
    out = []
    for pat in ("**/*.cpp", "**/*.cc", "**/*.c"):
        out += glob.glob(os.path.join(REPO, "src", pat), recursive=True)
    keep = []
    for f in sorted(set(out)):
        rel = os.path.relpath(f, os.path.join(REPO, "src"))
        if rel.startswith("unused/") or rel.startswith("sqc/") or rel == "cli/main.cpp":
            continue
        keep.append(f)
    return keep


def objname(path, prefix):
    h = hashlib.sha1(path.encode()).hexdigest()[:8]
    return os.path.join(BUILD, "obj", f"{prefix}_{os.path.basename(path)}_{h}.o")


def gen():
    os.makedirs(os.path.join(BUILD, "obj"), exist_ok=True)
    lines = [
        f"cxx = {CXX}",
        f"cxxflags = {CXXFLAGS}",
        f"ldflags = {LDFLAGS}",
        "rule cxx",
        "  command = $cxx $cxxflags $extra -MMD -MF $out.d -c $in -o $out",
        "  depfile = $out.d",
        "  deps = gcc",
        "  description = CXX $in",
        "rule link",
        "  command = $cxx $in -o $out $ldflags",
        "  description = LINK $out",
    ]
    objs = []
    for s in repo_sources():
        o = objname(s, "repo")
        objs.append(o)
        lines.append(f"build {o}: cxx {s}")
        lines.append(f"  extra = {OPT} {SAN}")
    for s in sorted(glob.glob(os.path.join(VERIF, "sim", "*.cpp"))):
        o = objname(s, "sim")
        objs.append(o)
        lines.append(f"build {o}: cxx {s}")
        # the harness itself is not the subject: optimised, not instrumented
        lines.append(f"  extra = -O2 -I{VERIF}/sim -Wall -Wno-unused-function")
    exe = os.path.join(BUILD, "simvm")
    lines.append(f"build {exe}: link {' '.join(objs)}")
    lines.append(f"default {exe}")
    text = "\n".join(lines) + "\n"
    path = os.path.join(BUILD, "build.ninja")
    old = open(path).read() if os.path.exists(path) else None
    if old != text:
        with open(path, "w") as f:
            f.write(text)
    return exe


def main():
    os.makedirs(BUILD, exist_ok=True)
    quiet = "-q" in sys.argv
    with open(os.path.join(BUILD, ".lock"), "w") as lk:
        fcntl.flock(lk, fcntl.LOCK_EX)
        exe = gen()
        r = subprocess.run(["ninja", "-C", BUILD, "-j", str(os.cpu_count() or 4)],
                           stdout=subprocess.PIPE, stderr=subprocess.STDOUT, text=True)
        if r.returncode != 0:
            sys.stderr.write(r.stdout[-20000:])
            sys.stderr.write("\nBUILD FAILED\n")
            return 2
        if not quiet:
            tail = r.stdout.strip().splitlines()[-1:] if r.stdout.strip() else []
            print("build ok:", exe, *tail)
    return 0


if __name__ == "__main__":
    sys.exit(main())
