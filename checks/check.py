#!/usr/bin/env python3
"""Entry point of every registered check.

  check.py <ID> [--tier quick|thorough] [--runs N] [--replay FILE]

exit 0: property held on everything explored (known findings are printed as KNOWN-FINDING lines)
exit 1: `VIOLATION property=<id> replay=<path>` printed for a violation not listed in KNOWN_FINDINGS.txt
exit 2: the harness itself failed (build error, non-deterministic replay) – never a verdict on /repo
"""
import argparse
import importlib
import os
import sys

HERE = os.path.dirname(os.path.abspath(__file__))
sys.path.insert(0, os.path.dirname(HERE))

from simlib import core  # noqa: E402


def main():
    ap = argparse.ArgumentParser()
    ap.add_argument("prop")
    ap.add_argument("--tier", default=os.environ.get("VERIF_TIER", "quick"))
    ap.add_argument("--runs", type=int, default=None)
    ap.add_argument("--replay", default=None)
    ap.add_argument("--quiet", action="store_true")
    ap.add_argument("--workers", type=int, default=None)
    a = ap.parse_args()
    prop = a.prop.upper()
    modname = "simlib.props.%s" % prop.lower()
    mod = importlib.import_module(modname)
    if a.replay:
        core.ensure_build()
        doc, vs, hs = core.replay_file(mod, a.replay)
        known = core.load_known(prop)
        exp = doc.get("expected", {})
        hit = [v for v in vs if v.key == exp.get("key")] or [v for v in vs if v.key not in known]
        if hit:
            print("VIOLATION property=%s replay=%s" % (prop, a.replay))
            if not a.quiet:
                for v in hit:
                    print("  rule=%s key=%s detail=%s" % (v.rule, v.key, v.detail[:1500]))
            return 1
        if not a.quiet:
            print("replay %s: no violation (judged %d histories)" % (a.replay, len(hs)))
        return 0
    tier = a.tier if a.tier in ("quick", "thorough") else "quick"
    n = a.runs or mod.RUNS[tier]
    cap = getattr(mod, "TIME_CAP", {}).get(tier)
    return core.run_check(modname, tier, n, workers=a.workers, time_cap_s=cap, level=getattr(mod, "LEVEL", "exploration"))


if __name__ == "__main__":
    sys.exit(main())
