"""Heap engine shared by C07 (equality / hashing / HashMap as a finite map) and C08 (arrays are shared references,
copies are independent, nothing becomes cyclic).

Simulated run: a heap of arrays and hashmaps held in the globals g0..gN (aliased through each other) is set up by
an unscheduled script; then 1-3 scheduled client scripts issue generated single-operator statements under seeded
slice lengths, so that the clients' operations interleave at every instruction boundary and iteration constructs
(apply, select {}) are interrupted by other clients' mutations. Every statement holds exactly one observed operator
whose operands are variables or literals, so the instruction that executes the operator is the linearisation point
of the statement; the simulator records it (`op` event, with the result rendered at that instant) and an atomic
dump of all roots after every statement (`heap__`).

Oracle: a reference heap (Python objects with identity) replays the operator events in history order and compares
every result and every dump. Where the statement does not fix an outcome the model says so (Unspec) and exact
judging stops for the rest of the run (crash / hang / escaping exception are still judged)."""
import copy
import hashlib
import json

from .core import Violation, crash_site
from . import sqfval
from .sqf import sqf_str, fmt_num

DEPTH_LIMIT = 10      # sim::render prints <deep> below this depth


# ---------------------------------------------------------------------------------------------
# model values
# ---------------------------------------------------------------------------------------------
class Arr:
    __slots__ = ("items", "oid", "mut")

    def __init__(self, items, oid):
        self.items = items
        self.oid = oid
        self.mut = -1


class HM:
    __slots__ = ("ent", "oid", "mut")

    def __init__(self, oid):
        self.ent = {}      # canon(key) -> [key snapshot, value]
        self.oid = oid
        self.mut = -1


class CodeV:
    __slots__ = ("text",)

    def __init__(self, text):
        self.text = text


class Unknown:
    """a value the statement does not determine (using it ends exact judging)"""


UNKNOWN = Unknown()


class Unspec(Exception):
    pass


class Heap:
    def __init__(self):
        self.next_oid = 1
        self.roots = []
        self.fuzzy = None       # reason exact judging stopped

    def arr(self, items):
        a = Arr(list(items), self.next_oid)
        self.next_oid += 1
        return a

    def hm(self):
        h = HM(self.next_oid)
        self.next_oid += 1
        return h


def canon(v):
    if v is None:
        raise Unspec("nil in comparison")
    if v is UNKNOWN:
        raise Unspec("unknown value")
    if isinstance(v, bool):
        return ("b", v)
    if isinstance(v, (int, float)):
        f = float(v)
        if f != f:
            raise Unspec("NaN")
        return ("n", f + 0.0 if f != 0 else 0.0)
    if isinstance(v, str):
        return ("s", v)
    if isinstance(v, CodeV):
        return ("c", "".join(v.text.split()))
    if isinstance(v, Arr):
        return ("a", tuple(canon(x) for x in v.items))
    if isinstance(v, HM):
        return ("h", frozenset((k, canon(e[1])) for k, e in v.ent.items()))
    raise Unspec("?")


def equal(a, b):
    """isEqualTo on the model (raises Unspec where nil/NaN is involved)"""
    return canon(a) == canon(b)


def snapshot(heap, v):
    if isinstance(v, Arr):
        return heap.arr([snapshot(heap, x) for x in v.items])
    if isinstance(v, HM):
        h = heap.hm()
        for k, e in v.ent.items():
            h.ent[k] = [snapshot(heap, e[0]), snapshot(heap, e[1])]
        return h
    return v


def deep_copy_arrays(heap, v, shared):
    """+array: nested arrays are copied; whether nested hashmaps are copied too is not fixed by the statement, they
    are recorded in `shared` (mutating one of them later ends exact judging)"""
    if isinstance(v, Arr):
        return heap.arr([deep_copy_arrays(heap, x, shared) for x in v.items])
    if isinstance(v, HM):
        shared.append(v)
    return v


def reaches(v, target, seen=None):
    if seen is None:
        seen = set()
    if v is target:
        return True
    if isinstance(v, Arr):
        if v.oid in seen:
            return False
        seen.add(v.oid)
        return any(reaches(x, target, seen) for x in v.items)
    if isinstance(v, HM):
        if v.oid in seen:
            return False
        seen.add(v.oid)
        return any(reaches(e[0], target, seen) or reaches(e[1], target, seen) for e in v.ent.values())
    return False


def contains_container(v):
    if isinstance(v, Arr):
        return any(isinstance(x, (Arr, HM)) for x in v.items)
    if isinstance(v, HM):
        return any(isinstance(e[1], (Arr, HM)) or isinstance(e[0], (Arr, HM)) for e in v.ent.values())
    return False


def struct(v, depth=0):
    """the structure sim::render prints, as sqfval.parse returns it"""
    if v is None:
        return None
    if v is UNKNOWN:
        raise Unspec("unknown value printed")
    if depth > DEPTH_LIMIT:
        return sqfval.Raw("<deep>")
    if isinstance(v, Arr):
        return [struct(x, depth + 1) for x in v.items]
    if isinstance(v, HM):
        return ("HM", [[struct(e[0], depth + 1), struct(e[1], depth + 1)] for e in v.ent.values()])
    if isinstance(v, CodeV):
        return sqfval.Raw(v.text)
    return v


def norm(x):
    """canonical comparable form of a parsed / model structure"""
    if x is None:
        return ("nil",)
    if isinstance(x, bool):
        return ("b", x)
    if isinstance(x, (int, float)):
        f = float(x)
        return ("n", 0.0 if f == 0 else float("%g" % f))
    if isinstance(x, sqfval.Raw):
        return ("raw", "".join(str(x).split()))
    if isinstance(x, str):
        return ("s", x)
    if isinstance(x, list):
        return ("a", tuple(norm(y) for y in x))
    if isinstance(x, tuple) and len(x) == 2 and x[0] == "HM":
        return ("h", tuple(sorted((norm(kv) for kv in x[1]), key=repr)))
    return ("?", repr(x))


def has_deep(x):
    if isinstance(x, sqfval.Raw):
        return str(x) == "<deep>"
    if isinstance(x, list):
        return any(has_deep(y) for y in x)
    if isinstance(x, tuple) and len(x) == 2 and x[0] == "HM":
        return any(has_deep(y) for y in x[1])
    return False


# ---------------------------------------------------------------------------------------------
# expressions (operands): JSON-able
#   ["n", 1.5] ["s", "a"] ["b", true] ["c", "{1}"] ["arr", [e,...]] ["g", i] ["l", name] ["hm", [[k,v],...]] ["neg", 1]
# ---------------------------------------------------------------------------------------------
def p_expr(e):
    t = e[0]
    if t == "n":
        return fmt_num(e[1]) if e[1] >= 0 and not (e[1] == 0 and str(e[1]).startswith("-")) else "(%s)" % ("-" + fmt_num(-e[1]) if e[1] != 0 else "-0")
    if t == "s":
        return sqf_str(e[1])
    if t == "b":
        return "true" if e[1] else "false"
    if t == "c":
        return e[1]
    if t == "arr":
        return "[" + ", ".join(p_expr(x) for x in e[1]) + "]"
    if t == "g":
        return "g%d" % e[1]
    if t == "l":
        return e[1]
    if t == "hm":
        return "(createHashMapFromArray [" + ", ".join("[%s, %s]" % (p_expr(k), p_expr(v)) for k, v in e[1]) + "])"
    raise ValueError(e)


def ev_expr(heap, env, e):
    t = e[0]
    if t == "n":
        return float(e[1])
    if t in ("s", "b"):
        return e[1]
    if t == "c":
        return CodeV(e[1])
    if t == "arr":
        return heap.arr([ev_expr(heap, env, x) for x in e[1]])
    if t == "g":
        return heap.roots[e[1]]
    if t == "l":
        v = env[e[1]]
        if v is UNKNOWN:
            raise Unspec("operand is not determined")      # (also when it sits inside an array literal)
        return v
    if t == "hm":
        h = heap.hm()
        for k, v in e[1]:
            kv = ev_expr(heap, env, k)
            vv = ev_expr(heap, env, v)
            h.ent[canon(kv)] = [snapshot(heap, kv), vv]
        return h
    raise ValueError(e)


# ---------------------------------------------------------------------------------------------
# statements: {"id": n, "op": name, "args": [expr...], "dst": local or None, "extra": ...}
# ---------------------------------------------------------------------------------------------
# operator name as the VM reports it, SQF text builder
OPS = {
    "set":            ("set",            lambda a: "%s set %s" % (a[0], a[1])),
    "pushBack":       ("pushback",       lambda a: "%s pushBack %s" % (a[0], a[1])),
    "pushBackUnique": ("pushbackunique", lambda a: "%s pushBackUnique %s" % (a[0], a[1])),
    "append":         ("append",         lambda a: "%s append %s" % (a[0], a[1])),
    "deleteAt":       ("deleteat",       lambda a: "%s deleteAt %s" % (a[0], a[1])),
    "deleteRange":    ("deleterange",    lambda a: "%s deleteRange %s" % (a[0], a[1])),
    "resize":         ("resize",         lambda a: "%s resize %s" % (a[0], a[1])),
    "reverse":        ("reverse",        lambda a: "reverse %s" % a[0]),
    "sort":           ("sort",           lambda a: "%s sort %s" % (a[0], a[1])),
    "copy":           ("+",              lambda a: "+%s" % a[0]),
    "plus":           ("+",              lambda a: "%s + %s" % (a[0], a[1])),
    "minus":          ("-",              lambda a: "%s - %s" % (a[0], a[1])),
    "selrange":       ("select",         lambda a: "%s select %s" % (a[0], a[1])),
    "selidx":         ("select",         lambda a: "%s select %s" % (a[0], a[1])),
    "apply":          ("apply",          lambda a: "%s apply %s" % (a[0], a[1])),
    "filter":         ("select",         lambda a: "%s select %s" % (a[0], a[1])),
    "count":          ("count",          lambda a: "count %s" % a[0]),
    "isEqualTo":      ("isequalto",      lambda a: "%s isEqualTo %s" % (a[0], a[1])),
    "eq":             ("==",             lambda a: "%s == %s" % (a[0], a[1])),
    "str":            ("str",            lambda a: "str %s" % a[0]),
    "find":           ("find",           lambda a: "%s find %s" % (a[0], a[1])),
    "in":             ("in",             lambda a: "%s in %s" % (a[0], a[1])),
    "get":            ("get",            lambda a: "%s get %s" % (a[0], a[1])),
    "keys":           ("keys",           lambda a: "keys %s" % a[0]),
    "fromArray":      ("createhashmapfromarray", lambda a: "createHashMapFromArray %s" % a[0]),
}
OBSERVED = sorted(set(v[0] for v in OPS.values()))
ARRAY_LOCALS = ["_a0", "_a1"]
HM_LOCALS = ["_h0"]
TEMP_LOCALS = ["_t0", "_t1"]
ALL_LOCALS = ARRAY_LOCALS + HM_LOCALS + TEMP_LOCALS


def p_stmt(st, nroots):
    name, build = OPS[st["op"]]
    text = build(["(%s)" % p_expr(a) if a[0] in ("n",) else p_expr(a) for a in st["args"]])
    first = p_expr(st["args"][0]) if st["args"][0][0] in ("g", "l") else "0"
    if st.get("dst"):
        body = "%s = (%s); t__ [%d, %s]" % (st["dst"], text, st["id"], st["dst"])
    else:
        body = "%s; t__ [%d, %s]" % (text, st["id"], first)
    return "{ %s } except__ { t__ [%d, \"E\"] }; heap__ [%d, %d, %s];" % (body, st["id"], st["id"], nroots, ", ".join(ALL_LOCALS))


def client_text(stmts, nroots):
    lines = ["private _a0 = []; private _a1 = []; private _h0 = createHashMap; private _t0 = 0; private _t1 = 0;"]
    for st in stmts:
        lines.append(p_stmt(st, nroots))
    return "\n".join(lines)


def setup_text(case):
    lines = []
    for i, e in enumerate(case["setup"]):
        lines.append("g%d = %s;" % (i, p_expr(e)))
    for j, law in enumerate(case.get("laws", [])):
        lines.append("t__ [\"LAW\", %d, %s];" % (j, law_text(law)))
    lines.append("heap__ [0, %d];" % len(case["setup"]))
    return "\n".join(lines)


# ---------------------------------------------------------------------------------------------
# laws of equality (C07): evaluated on pairs of separately constructed values
# ---------------------------------------------------------------------------------------------
def law_text(law):
    kind = law["kind"]
    x = p_expr(law["x"])
    y = p_expr(law["y"])
    if kind == "eq2":      # both directions of isEqualTo, hashing consistency through a one-entry hashmap
        return "[(%s) isEqualTo (%s), (%s) isEqualTo (%s), (createHashMapFromArray [[%s, 1]]) get (%s), (%s) in (createHashMapFromArray [[%s, 1]]), count (createHashMapFromArray [[%s, 1], [%s, 2]])]" % (x, y, y, x, x, y, y, x, x, y)
    if kind == "mut":      # hashing stays consistent with equality after the hashed value was mutated in place
        wrap = {"none": "%s", "arr": "[%s]", "arr2": "[1, [%s]]"}[law["wrap"]]
        m = law["mut"]
        mut = "_h set [%s, %s]" % (p_expr(m[1]), p_expr(m[2])) if m[0] == "set" else "_h deleteAt %s" % p_expr(m[1])
        two = "[[0, 0], [_g, 1]]"
        return ("call { private _h = %s; private _w = %s; private _m = createHashMapFromArray [[0, 0], [_w, 1]]; private _pre = _m get _w; %s; "
                "private _g = %s; [_pre, _w isEqualTo _g, _g isEqualTo _w, (createHashMapFromArray %s) get _w, _w in (createHashMapFromArray %s), "
                "count (createHashMapFromArray [[_g, 1], [_w, 2]]), (%s) in _m, _w in _m] }"
                % (x, wrap % "_h", mut, wrap % y, two, two, wrap % x))
    if kind == "opeq":     # == on the types it is defined for
        return "[(%s) == (%s), (%s) == (%s), (%s) isEqualTo (%s)]" % (x, y, y, x, x, y)
    raise ValueError(kind)


# ---------------------------------------------------------------------------------------------
# the reference semantics of one operator
# ---------------------------------------------------------------------------------------------
NORES = ("nores",)     # result not judged


def is_num(v):
    return isinstance(v, (int, float)) and not isinstance(v, bool)


def idx_of(v):
    """integral index or None (fractional indices are not generated)"""
    if not is_num(v):
        return None
    if v != int(v):
        raise Unspec("fractional index")
    return int(v)


def touch(obj, at, heap):
    obj.mut = at
    if getattr(heap, "shared_hms", None) and obj in heap.shared_hms:
        raise Unspec("mutation of a hashmap shared by a copy")


def model_op(heap, op, vals, at, st):
    """applies the operator to the model heap. Returns (result, note). result is a model value, NORES, or raises Unspec.
    `note` classifies what the statement demands here."""
    if any(v is UNKNOWN for v in vals):
        raise Unspec("operand is not determined")
    if any(v is None for v in vals):
        return NORES, "nil-operand"
    a = vals[0]
    b = vals[1] if len(vals) > 1 else None
    # ---------------- arrays, in place
    if op == "pushBack":
        if not isinstance(a, Arr):
            return NORES, "type"
        if reaches(b, a):
            return NORES, "cycle-refused"
        a.items.append(b)
        touch(a, at, heap)
        return float(len(a.items) - 1), "ok"
    if op == "pushBackUnique":
        if not isinstance(a, Arr):
            return NORES, "type"
        for x in a.items:
            if x is None:
                continue
            if x is b or equal(x, b):
                return -1.0, "present"
        if reaches(b, a):
            return NORES, "cycle-refused"
        a.items.append(b)
        touch(a, at, heap)
        return float(len(a.items) - 1), "ok"
    if op == "append":
        if not isinstance(a, Arr) or not isinstance(b, Arr):
            return NORES, "type"
        if any(reaches(x, a) for x in b.items):
            return NORES, "cycle-refused"
        a.items.extend(list(b.items))
        touch(a, at, heap)
        return None, "ok"
    if op == "set":
        if isinstance(a, HM):
            if not isinstance(b, Arr) or len(b.items) != 2:
                return NORES, "type"
            k, v = b.items
            if k is None:
                raise Unspec("nil key")
            if reaches(v, a):
                return NORES, "cycle-refused"
            if reaches(k, a):
                # keys are captured by value: storing a snapshot and refusing both keep the hashmap free of itself
                raise Unspec("hashmap used inside its own key")
            ck = canon(k)
            if ck in a.ent:
                a.ent[ck][1] = v
            else:
                a.ent[ck] = [snapshot(heap, k), v]
            touch(a, at, heap)
            return None, "ok" if not isinstance(k, (Arr, HM)) else "ok-container-key"
        if not isinstance(a, Arr):
            return NORES, "type"
        if not isinstance(b, Arr) or len(b.items) != 2 or not is_num(b.items[0]):
            return NORES, "type"
        i = idx_of(b.items[0])
        v = b.items[1]
        if i < 0:
            return NORES, "index-rejected"
        if reaches(v, a):
            return NORES, "cycle-refused"
        grow = i >= len(a.items)
        while len(a.items) <= i:
            a.items.append(None)
        a.items[i] = v
        touch(a, at, heap)
        return None, "ok-grow" if grow else "ok"
    if op == "deleteAt":
        if isinstance(a, HM):
            ck = canon(b)
            if ck in a.ent:
                v = a.ent.pop(ck)[1]
                touch(a, at, heap)
                return v, "ok"
            return None, "absent"
        if not isinstance(a, Arr) or not is_num(b):
            return NORES, "type"
        i = idx_of(b)
        if i < 0 or i >= len(a.items):
            return None, "index-rejected"
        v = a.items.pop(i)
        touch(a, at, heap)
        return v, "ok"
    if op == "deleteRange":
        if not isinstance(a, Arr) or not isinstance(b, Arr) or len(b.items) != 2 or not all(is_num(x) for x in b.items):
            return NORES, "type"
        frm, n = idx_of(b.items[0]), idx_of(b.items[1])
        if frm < 0 or frm >= len(a.items):
            return None, "index-rejected"
        # only argument shapes are generated on which "count" and "last index" readings of the second number agree
        size = len(a.items)
        by_count = max(0, min(n, size - frm))
        to = n if n >= frm else frm
        by_last = min(to, size - 1) - frm + 1
        if by_count != by_last:
            raise Unspec("deleteRange second argument")
        del a.items[frm:frm + by_count]
        touch(a, at, heap)
        return None, "ok"
    if op == "resize":
        if not isinstance(a, Arr) or not is_num(b):
            return NORES, "type"
        n = idx_of(b)
        if n < 0:
            return None, "index-rejected"
        if n < len(a.items):
            del a.items[n:]
        else:
            a.items.extend([None] * (n - len(a.items)))
        touch(a, at, heap)
        return None, "ok"
    if op == "reverse":
        if not isinstance(a, Arr):
            return NORES, "type"
        a.items.reverse()
        touch(a, at, heap)
        return None, "ok"
    if op == "sort":
        if not isinstance(a, Arr) or not isinstance(b, bool):
            return NORES, "type"
        if len(a.items) <= 1:
            return None, "ok"
        if all(is_num(x) for x in a.items):
            a.items.sort(key=lambda x: x, reverse=not b)
        elif all(isinstance(x, str) for x in a.items):
            a.items.sort(reverse=not b)
        elif all(isinstance(x, Arr) for x in a.items):
            raise Unspec("sort of nested arrays")
        else:
            return None, "rejected-mixed"
        touch(a, at, heap)
        return None, "ok"
    # ---------------- arrays, fresh results
    if op == "copy":
        if isinstance(a, HM):
            h = heap.hm()
            for k, e in a.ent.items():
                h.ent[k] = [e[0], e[1]]
                if isinstance(e[1], (Arr, HM)):
                    heap.shared_hms.append(e[1]) if isinstance(e[1], HM) else heap.shared_arrs.append(e[1])
            return h, "ok"
        if is_num(a):
            return float(a), "ok-scalar"
        if not isinstance(a, Arr):
            return NORES, "type"
        return deep_copy_arrays(heap, a, heap.shared_hms), "ok"
    if op == "plus":
        if is_num(a) and is_num(b):
            return float(a) + float(b), "ok-scalar"
        if isinstance(a, str) and isinstance(b, str):
            return a + b, "ok-scalar"
        if not isinstance(a, Arr) or not isinstance(b, Arr):
            return NORES, "type"
        return heap.arr(list(a.items) + list(b.items)), "ok"
    if op == "minus":
        if is_num(a) and is_num(b):
            return float(a) - float(b), "ok-scalar"
        if not isinstance(a, Arr) or not isinstance(b, Arr):
            return NORES, "type"
        out = []
        for x in a.items:
            if x is None:
                raise Unspec("nil element in array difference")
            found = False
            for y in b.items:
                if y is None:
                    raise Unspec("nil element in array difference")
                if x is y or equal(x, y):
                    found = True
                    break
            if not found:
                out.append(x)
        return heap.arr(out), "ok"
    if op == "selrange":
        if not isinstance(a, Arr) or not isinstance(b, Arr) or len(b.items) != 2 or not all(is_num(x) for x in b.items):
            return NORES, "type"
        s, n = idx_of(b.items[0]), idx_of(b.items[1])
        if s < 0 or s > len(a.items) or n < 0:
            return heap.arr([]), "index-rejected"
        return heap.arr(list(a.items[s:s + n])), "ok"
    if op == "selidx":
        if isinstance(a, Arr) and is_num(b):
            i = idx_of(b)
            if i < 0 or i >= len(a.items):
                return None, "index-rejected"
            return a.items[i], "ok"
        return NORES, "type"
    if op in ("apply", "filter"):
        if not isinstance(a, Arr) or not isinstance(b, CodeV):
            return NORES, "type"
        if st.get("mutating_body"):
            raise Unspec("iteration over an array that the body changes")
        return ("iter", a, list(a.items), len(a.items)), "iterated"
    # ---------------- reads
    if op == "count":
        if isinstance(a, Arr):
            return float(len(a.items)), "ok"
        if isinstance(a, HM):
            return float(len(a.ent)), "ok"
        return NORES, "type"
    if op == "isEqualTo":
        return equal(a, b), "ok"
    if op == "eq":
        if isinstance(a, bool) and isinstance(b, bool):
            return a == b, "ok"
        if is_num(a) and is_num(b):
            return float(a) == float(b), "ok"
        if isinstance(a, str) and isinstance(b, str):
            return a.lower() == b.lower(), "ok"
        return NORES, "type"
    if op == "str":
        return NORES, "terminates"
    if op == "find":
        if not isinstance(a, Arr):
            return NORES, "type"
        for i, x in enumerate(a.items):
            if x is None:
                continue
            if x is b or equal(x, b):
                return float(i), "ok"
        return -1.0, "ok"
    if op == "in":
        if isinstance(b, HM):
            return canon(a) in b.ent, "ok"
        if isinstance(b, Arr):
            for x in b.items:
                if x is None:
                    continue
                if x is a or equal(x, a):
                    return True, "ok"
            return False, "ok"
        return NORES, "type"
    if op == "get":
        if not isinstance(a, HM):
            return NORES, "type"
        e = a.ent.get(canon(b))
        return (e[1] if e else None), ("ok" if e else "absent")
    if op == "keys":
        if not isinstance(a, HM):
            return NORES, "type"
        return ("multiset", [snapshot(heap, e[0]) for e in a.ent.values()]), "ok"
    if op == "fromArray":
        if not isinstance(a, Arr):
            return NORES, "type"
        h = heap.hm()
        malformed = False
        for it in a.items:
            if not isinstance(it, Arr) or len(it.items) != 2:
                malformed = True
                continue       # reported, skipped
            k, v = it.items
            if k is None:
                raise Unspec("nil key")
            ck = canon(k)
            if ck in h.ent:
                h.ent[ck][1] = v
            else:
                h.ent[ck] = [snapshot(heap, k), v]
        return h, "malformed-pair-skipped" if malformed else "ok"
    raise ValueError(op)


# ---------------------------------------------------------------------------------------------
# generation
# ---------------------------------------------------------------------------------------------
SCALARS = [["n", 0], ["n", 1], ["n", 2], ["n", 3], ["n", -1], ["n", 1.5], ["n", 7]]
STRINGS = [["s", "a"], ["s", "A"], ["s", "b"], ["s", ""], ["s", "ab"]]
CODES = [["c", "{}"], ["c", "{1}"], ["c", "{2}"], ["c", "{_x}"], ["c", "{1 + 1}"]]
NEG_ZERO = ["n", -0.0]


def lit_scalar(rng):
    r = rng.random()
    if r < 0.5:
        return rng.choice(SCALARS)
    if r < 0.8:
        return rng.choice(STRINGS)
    if r < 0.9:
        return ["b", rng.random() < 0.5]
    return rng.choice(CODES)


def lit_value(rng, depth=0, refs=()):
    r = rng.random()
    if r < 0.55 or depth >= 2:
        return lit_scalar(rng)
    if r < 0.7 and refs:
        return rng.choice(list(refs))
    return ["arr", [lit_value(rng, depth + 1, refs) for _ in range(rng.randint(0, 3))]]


def key_expr(rng, refs):
    r = rng.random()
    if r < 0.35:
        return rng.choice([["n", 0], NEG_ZERO, ["n", 1], ["n", 2], ["s", "a"], ["s", "A"], ["s", "b"], ["b", True]])
    if r < 0.6:
        return rng.choice([["arr", [["n", 1]]], ["arr", [["n", 1], ["n", 2]]], ["arr", [["s", "a"]]], ["arr", [["s", "A"]]],
                           ["arr", [["arr", [["n", 1]]], ["arr", [["n", 2]]]]], ["arr", []]])
    if r < 0.7:
        return rng.choice(CODES)
    if r < 0.75:
        return ["hm", [[["n", 1], ["n", 2]]]]
    return rng.choice(list(refs)) if refs else ["n", 3]


def gen_case(rng, prop, mix):
    nroots = rng.randint(3, 5)
    setup = []
    kinds = []
    for i in range(nroots):
        refs = [["g", j] for j in range(i)]
        if rng.random() < mix["hm_root"]:
            ents = []
            for _ in range(rng.randint(0, 3)):
                ents.append([key_expr(rng, [x for x in refs if kinds[x[1]] == "a"]), lit_value(rng, 1, refs)])
            setup.append(["hm", ents])
            kinds.append("h")
        else:
            setup.append(["arr", [lit_value(rng, 1, refs) for _ in range(rng.randint(0, 5))]])
            kinds.append("a")
    if "a" not in kinds:
        setup[0] = ["arr", [["n", 1], ["n", 2]]]
        kinds[0] = "a"
    if prop == "C07" and "h" not in kinds:
        setup[-1] = ["hm", [[["s", "a"], ["n", 1]]]]
        kinds[-1] = "h"
    nclients = rng.choice([1, 1, 2, 2, 3])
    sid = [0]
    clients = []
    for c in range(nclients):
        stmts = []
        lk = {"_a0": "a", "_a1": "a", "_h0": "h", "_t0": "?", "_t1": "?"}
        for _ in range(rng.randint(3, mix["max_ops"] // nclients + 3)):
            if rng.random() < mix.get("lookalike", 0.0):
                # self insertion hidden behind a sibling that merely looks the same: [[copy of a], [a]]
                a = pick_container(rng, kinds, lk, "a")
                if a[0] in ("g", "l") and a != ["l", "_a1"]:
                    sid[0] += 1
                    stmts.append({"id": sid[0], "op": "copy", "args": [a], "dst": "_a1"})
                    twin = ["arr", [["arr", [["l", "_a1"]]], ["arr", [a]]]]
                    how = rng.choice(["set", "append", "pushBack", "pushBackHm", "pushBackUnique"])
                    sid[0] += 1
                    if how == "set":
                        stmts.append({"id": sid[0], "op": "set", "args": [a, ["arr", [["n", rng.choice([0, 1, 5])], twin]]], "dst": None})
                    elif how == "append":
                        stmts.append({"id": sid[0], "op": "append", "args": [a, ["arr", [twin]]], "dst": None})
                    elif how == "pushBackHm":
                        stmts.append({"id": sid[0], "op": "pushBack", "args": [a, ["hm", [[["s", "k"], twin]]]], "dst": None})
                    else:
                        stmts.append({"id": sid[0], "op": how, "args": [a, twin], "dst": None})
                    continue
            sid[0] += 1
            stmts.append(gen_stmt(rng, sid[0], kinds, lk, mix))
        clients.append(stmts)
    case = {"prop": prop, "setup": setup, "kinds": kinds, "clients": clients, "laws": gen_laws(rng) if mix.get("laws") else []}
    if nclients > 1 or rng.random() < 0.5:
        case["sched"] = {"slice_default": rng.choice([1, 2, 3, 5, 13, 150]), "slices": [rng.choice([1, 1, 2, 3, 5, 8, 13, 40]) for _ in range(rng.randint(0, 60))]}
    else:
        case["sched"] = {}
    case["plan"] = plan_of(case)
    return case


def pick_container(rng, kinds, lk, want):
    """an operand expression that statically is an array ('a'), a hashmap ('h') or anything ('?')"""
    cands = [["g", i] for i, k in enumerate(kinds) if want == "?" or k == want]
    cands += [["l", n] for n, k in lk.items() if want == "?" or k == want or (k == "?" and want != "h")]
    return rng.choice(cands) if cands else ["arr", []]


def value_operand(rng, kinds, lk):
    refs = [["g", i] for i in range(len(kinds))] + [["l", n] for n in lk]
    r = rng.random()
    if r < 0.35:
        return lit_scalar(rng)
    if r < 0.6:
        return rng.choice(refs)
    return lit_value(rng, 0, refs)


def index_operand(rng):
    return ["n", rng.choice([0, 0, 1, 1, 2, 3, 4, 6, -1, -2, 9, 50, 1000000])]


def gen_stmt(rng, sid, kinds, lk, mix):
    ops = mix["ops"]
    op = rng.choices([o for o, w in ops], weights=[w for o, w in ops])[0]
    A = lambda: pick_container(rng, kinds, lk, "a")
    H = lambda: pick_container(rng, kinds, lk, "h")
    st = {"id": sid, "op": op, "args": [], "dst": None}
    refs_a = [["g", i] for i, k in enumerate(kinds) if k == "a"] + [["l", "_a0"], ["l", "_a1"]]
    # keys: live arrays, and arrays that hold a live hashmap (captured by value all the same)
    refs_a = refs_a + [["arr", [["g", i]]] for i, k in enumerate(kinds) if k == "h"] + [["arr", [["n", 1], ["l", "_h0"]]]]
    if op in ("pushBack", "pushBackUnique"):
        a = A()
        r = rng.random()
        if r < 0.15:
            v = a                                   # direct self insertion
        elif r < 0.3:
            v = ["arr", [a]]                        # through an intermediate array
        elif r < 0.4:
            v = ["hm", [[["s", "k"], a]]]           # through an intermediate hashmap
        else:
            v = value_operand(rng, kinds, lk)
        st["args"] = [a, v]
    elif op == "append":
        a = A()
        r = rng.random()
        st["args"] = [a, ["arr", [a]] if r < 0.2 else (a if r < 0.3 else (A() if r < 0.6 else lit_value(rng, 0, refs_a) if False else ["arr", [value_operand(rng, kinds, lk) for _ in range(rng.randint(0, 3))]]))]
    elif op == "set":
        a = A()
        r = rng.random()
        v = a if r < 0.15 else (["arr", [a]] if r < 0.25 else value_operand(rng, kinds, lk))
        st["args"] = [a, ["arr", [index_operand(rng) if rng.random() < 0.8 else ["n", rng.choice([5, 6, 7])], v]]]
        if st["args"][1][1][0][1] > 100:
            st["args"][1][1][0] = ["n", 8]
    elif op == "hset":
        st["op"] = "set"
        h = H()
        r = rng.random()
        k = key_expr(rng, refs_a)
        if r < 0.12:
            v = h
        elif r < 0.2:
            v = ["arr", [h]]
        elif r < 0.22:
            v = ["n", 1]
            k = ["arr", [h]]
        else:
            v = value_operand(rng, kinds, lk)
        st["args"] = [h, ["arr", [k, v]]]
    elif op == "deleteAt":
        st["args"] = [A(), index_operand(rng)]
    elif op == "hdel":
        st["op"] = "deleteAt"
        st["args"] = [H(), key_expr(rng, refs_a)]
    elif op == "deleteRange":
        shape = rng.choice([[1, rng.randint(1, 4)], [rng.randint(2, 4), 1], [-1, 2], [50, 2], [0, 100], [rng.randint(5, 9), rng.randint(1, 3)]])
        if shape[0] >= 5 and shape[1] != 1:
            shape[1] = 1
        st["args"] = [A(), ["arr", [["n", shape[0]], ["n", shape[1]]]]]
    elif op == "resize":
        st["args"] = [A(), ["n", rng.choice([0, 1, 2, 3, 5, 8, -1, -3])]]
    elif op == "reverse":
        st["args"] = [A()]
    elif op == "sort":
        st["args"] = [A(), ["b", rng.random() < 0.5]]
    elif op == "copy":
        st["args"] = [A()]
        st["dst"] = rng.choice(ARRAY_LOCALS)
    elif op == "hcopy":
        st["op"] = "copy"
        st["args"] = [H()]
        st["dst"] = "_h0"
    elif op in ("plus", "minus"):
        st["args"] = [A(), A() if rng.random() < 0.7 else ["arr", [value_operand(rng, kinds, lk) for _ in range(rng.randint(0, 3))]]]
        st["dst"] = rng.choice(ARRAY_LOCALS)
    elif op == "selrange":
        st["args"] = [A(), ["arr", [["n", rng.choice([0, 1, 2, 5, -1, 50])], ["n", rng.choice([0, 1, 2, 10, -1])]]]]
        st["dst"] = rng.choice(ARRAY_LOCALS)
    elif op == "selidx":
        st["args"] = [A(), index_operand(rng)]
        st["dst"] = rng.choice(TEMP_LOCALS)
        lk[st["dst"]] = "?"
    elif op in ("apply", "filter"):
        a = A()
        st["args"] = [a]
        if rng.random() < mix.get("mutating_body", 0.15) and a[0] in ("g", "l"):
            an = p_expr(a)
            body = rng.choice(["{%s deleteAt 0; 0}", "{%s resize 0; true}", "{%s deleteRange [0, 100]; false}", "{%s set [0, 5]; true}", "{reverse %s; true}"]) % an
            st["mutating_body"] = True
        elif op == "apply":
            body = rng.choice(["{_x}", "{[_x]}", "{0}", "{_x isEqualTo 1}"])
        else:
            body = rng.choice(["{true}", "{false}", "{_x isEqualType 0}", "{_x isEqualTo 1}"])
        st["args"].append(["c", body])
        st["dst"] = rng.choice(ARRAY_LOCALS)
    elif op == "count":
        st["args"] = [pick_container(rng, kinds, lk, rng.choice(["a", "h"]))]
    elif op == "isEqualTo":
        st["args"] = [pick_container(rng, kinds, lk, "?"), pick_container(rng, kinds, lk, "?") if rng.random() < 0.7 else value_operand(rng, kinds, lk)]
    elif op == "str":
        st["args"] = [pick_container(rng, kinds, lk, "?")]
    elif op == "find":
        st["args"] = [A(), value_operand(rng, kinds, lk)]
    elif op == "in":
        st["args"] = [value_operand(rng, kinds, lk), A()]
    elif op == "hin":
        st["op"] = "in"
        st["args"] = [key_expr(rng, refs_a), H()]
    elif op == "get":
        st["args"] = [H(), key_expr(rng, refs_a)]
        st["dst"] = rng.choice(TEMP_LOCALS)
        lk[st["dst"]] = "?"
    elif op == "keys":
        st["args"] = [H()]
        if rng.random() < 0.5:
            st["dst"] = rng.choice(ARRAY_LOCALS)
    elif op == "fromArray":
        ents = []
        for _ in range(rng.randint(0, 4)):
            ents.append(["arr", [key_expr(rng, refs_a), value_operand(rng, kinds, lk)]])
        if rng.random() < 0.2:
            ents.append(["arr", [["n", 1]]])          # malformed pair: reported and skipped
        st["args"] = [["arr", ents]]
        st["dst"] = "_h0"
    else:
        raise ValueError(op)
    return st


def gen_laws(rng):
    pool = [["n", 0], NEG_ZERO, ["n", 1], ["n", 1.5], ["n", 10000000000.0], ["s", "a"], ["s", "A"], ["s", ""], ["s", "aB"], ["s", "Ab"], ["b", True], ["b", False],
            ["arr", []], ["arr", [["n", 1]]], ["arr", [["n", 1], ["n", 2]]], ["arr", [["arr", [["n", 1]]], ["arr", [["n", 2]]]]], ["arr", [["s", "a"]]], ["arr", [["s", "A"]]],
            ["arr", [["n", 1], ["s", "a"], ["b", True]]], ["arr", [["arr", []]]], ["arr", [["n", 0]]],
            ["c", "{}"], ["c", "{1}"], ["c", "{2}"], ["c", "{1 + 1}"], ["c", "{_x}"], ["arr", [NEG_ZERO]], ["arr", [["c", "{1}"]]], ["arr", [["c", "{2}"]]],
            ["hm", []], ["hm", [[["n", 1], ["n", 2]]]], ["hm", [[["s", "a"], ["n", 1]], [["s", "b"], ["n", 2]]]], ["hm", [[["s", "b"], ["n", 2]], [["s", "a"], ["n", 1]]]],
            ["hm", [[["s", "a"], ["n", 1]], [["s", "b"], ["n", 2]], [["s", "c"], ["n", 3]], [["s", "d"], ["n", 4]]]],
            ["hm", [[["s", "d"], ["n", 4]], [["s", "c"], ["n", 3]], [["s", "b"], ["n", 2]], [["s", "a"], ["n", 1]]]],
            ["hm", [[["arr", [["n", 1]]], ["arr", [["n", 2]]]]]],
            ["arr", [["hm", [[["n", 1], ["n", 2]]]]]], ["arr", [["hm", [[["s", "a"], ["n", 1]], [["s", "b"], ["n", 2]]]]]], ["arr", [["hm", [[["s", "b"], ["n", 2]], [["s", "a"], ["n", 1]]]]]]]
    vals = [rng.choice(pool) for _ in range(rng.randint(3, 6))]
    laws = []
    for i, x in enumerate(vals):
        for j, y in enumerate(vals):
            if j < i:
                continue
            laws.append({"kind": "eq2", "x": x, "y": y, "i": i, "j": j})
            if x[0] == y[0] and x[0] in ("n", "s", "b"):
                laws.append({"kind": "opeq", "x": x, "y": y, "i": i, "j": j})
    # a hashmap that was hashed once (as a key, directly or inside an array key), then mutated in place, must hash like a
    # separately built hashmap of the new content (x = content before, y = content after, built in another entry order)
    kpool = [["s", "a"], ["s", "b"], ["n", 1], ["arr", [["n", 1]]]]
    vpool = [["n", 1], ["n", 2], ["s", "x"], ["arr", [["n", 1]]], ["b", True]]
    for _ in range(rng.randint(1, 3)):
        ks = rng.sample(kpool, rng.randint(1, 3))
        ents = [[k, rng.choice(vpool)] for k in ks]
        r = rng.random()
        if r < 0.6:
            k = rng.choice(ks)
            cur = [e[1] for e in ents if e[0] == k][0]
            mut = ["set", k, rng.choice([v for v in vpool if v != cur])]
            after = [[e[0], mut[2] if e[0] == k else e[1]] for e in ents]
        elif r < 0.8:
            rest = [k for k in kpool if k not in ks]
            mut = ["set", rest[0], rng.choice(vpool)]
            after = ents + [[mut[1], mut[2]]]
        else:
            k = rng.choice(ks)
            mut = ["del", k]
            after = [e for e in ents if e[0] != k]
        laws.append({"kind": "mut", "x": ["hm", ents], "y": ["hm", list(reversed(after))], "wrap": rng.choice(["none", "none", "arr", "arr2"]), "mut": mut,
                     "i": -1, "j": -1})
    return laws


def plan_of(case):
    n = len(case["setup"])
    steps = [{"do": "vm_new", "vm": "a", "conf": {"print_work": False}},
             {"do": "load", "vm": "a", "text": setup_text(case), "name": "setup.sqf"},
             {"do": "action", "vm": "a", "name": "start"}, {"do": "action_if_failed", "vm": "a", "name": "abort"}]
    sched = bool(case.get("sched"))
    for c, stmts in enumerate(case["clients"]):
        steps.append({"do": "load", "vm": "a", "text": client_text(stmts, n), "name": "client%d.sqf" % c, "sched": sched})
    steps += [{"do": "action", "vm": "a", "name": "start"}, {"do": "action_if_failed", "vm": "a", "name": "abort"},
              {"do": "load", "vm": "a", "text": "heap__ [-1, %d];" % n, "name": "final.sqf"}, {"do": "action", "vm": "a", "name": "start"}, {"do": "state", "vm": "a"}]
    return {"prop": case["prop"], "steps": steps, "sched": case.get("sched") or {}, "clock": {"per_instr_ns": 1000, "per_poll_ns": 100, "idle_jump": True},
            "limits": {"max_instr": 60000, "max_events": 60000, "watchdog_s": 30}, "observe": {"visits": False, "slices": False, "ops": OBSERVED}}


# ---------------------------------------------------------------------------------------------
# judge
# ---------------------------------------------------------------------------------------------
def split_top(payload):
    v = sqfval.parse(payload)
    return v


def judge(case, hs):
    h = hs[0]
    prop = case["prop"]
    if "crash" in h:
        site = crash_site(h["crash"])
        return [Violation("no-crash", "crash:%s" % site.replace("|", ":"), h["crash"].get("stderr", "")[-2500:])]
    if h.get("truncated"):
        return [Violation("terminates", "hang:budget", "the operation history did not finish within the instruction budget")]
    ev = h["events"]
    V = []
    for e in ev:
        if e[1] == "act" and e[12]:
            V.append(Violation("no-exception", "exception:%s" % e[12].split(":")[0].replace(" ", "_")[:40], "exception escaped execute(): %s" % e[12]))
            return V
    stmts = {}
    owner = {}
    for c, ss in enumerate(case["clients"]):
        for st in ss:
            stmts[st["id"]] = st
            owner[st["id"]] = c
    # ---- laws
    V += judge_laws(case, ev)
    # ---- pass 1: pair each statement with the event of its operator
    ctx_of_client = {}
    by_ctx = {}
    for idx, e in enumerate(ev):
        if e[1] in ("op", "t"):
            by_ctx.setdefault(e[3], []).append(idx)
    op_at = {}          # event index -> statement id (the statement's own operator)
    done_at = {}        # event index of the completion marker -> (statement id, error?, parsed payload)
    dump_at = {}
    for ctx, idxs in by_ctx.items():
        pend = []
        for idx in idxs:
            e = ev[idx]
            if e[1] == "op":
                pend.append(idx)
                continue
            p = sqfval.parse(e[4])
            if not isinstance(p, list) or not p:
                continue
            if len(p) >= 2 and p[1] == "S":
                dump_at[idx] = p
                continue
            if p[0] == "LAW":
                pend = []
                continue
            sid = p[0]
            if not isinstance(sid, (int, float)) or int(sid) not in stmts:
                continue
            sid = int(sid)
            name = OPS[stmts[sid]["op"]][0]
            mine = [i for i in pend if ev[i][4] == name]
            if mine:
                op_at[mine[-1]] = sid
            done_at[idx] = (sid, len(p) >= 2 and p[1] == "E", p)
            pend = []
    # ---- pass 2: replay
    heap = Heap()
    heap.shared_hms = []
    heap.shared_arrs = []
    envs = [dict() for _ in case["clients"]]
    try:
        for e in case["setup"]:
            heap.roots.append(ev_expr(heap, {}, e))
    except Unspec:
        return V
    for c in range(len(case["clients"])):
        envs[c] = {"_a0": heap.arr([]), "_a1": heap.arr([]), "_h0": heap.hm(), "_t0": 0.0, "_t1": 0.0}
    pending = {}        # statement id -> (result, note, op event index)
    last_ops = []
    since_good = []     # operations applied since the last dump that agreed
    nchecks = 0
    for idx, e in enumerate(ev):
        if heap.fuzzy:
            break
        if idx in op_at:
            sid = op_at[idx]
            st = stmts[sid]
            c = owner[sid]
            try:
                vals = [ev_expr(heap, envs[c], a) for a in st["args"]]
                for v in vals:
                    if isinstance(v, Arr) and v in heap.shared_arrs and st["op"] in ("set", "pushBack", "pushBackUnique", "append", "deleteAt", "deleteRange", "resize", "reverse", "sort"):
                        raise Unspec("mutation of an array shared by a hashmap copy")
                res, note = model_op(heap, st["op"], vals, idx, st)
            except Unspec as u:
                heap.fuzzy = "%s (statement %d %s)" % (u, sid, st["op"])
                break
            pending[sid] = (res, note, idx)
            last_ops.append("%s:%s" % (st["op"], note))
            since_good.append((sid, "%s:%s" % (st["op"], note)))
            # the result, rendered by the VM at the very instruction
            if res is not NORES and not (isinstance(res, tuple) and res and res[0] in ("iter",)) and not st.get("dst"):
                sut = sqfval.parse(e[5])
                try:
                    if isinstance(res, tuple) and res[0] == "multiset":
                        want = ("a", tuple(sorted((norm(struct(x, 1)) for x in res[1]), key=repr)))
                        got = norm(sut)
                        got = ("a", tuple(sorted(got[1], key=repr))) if got[0] == "a" else got
                    else:
                        want = norm(struct(res))
                        got = norm(sut)
                except Unspec:
                    want = got = None
                nchecks += 1
                if want != got:
                    V.append(Violation("result", "result:%s:%s" % (st["op"], note), "statement %d `%s` returned %s, the reference heap says %s" % (sid, stmt_text(st), e[5][:200], show(res))))
                    break
        elif idx in done_at:
            sid, err, p = done_at[idx]
            st = stmts[sid]
            c = owner[sid]
            if sid not in pending:
                # the operator never executed (nil operand, no such operator for these types): nothing changed; a destination is not determined
                try:
                    vals = [ev_expr(heap, envs[c], a) for a in st["args"]]
                    res, note = model_op(copy_probe(heap), st["op"], [], idx, st) if False else (NORES, "not-executed")
                    expect_exec = all(v is not None and v is not UNKNOWN for v in vals) and operator_defined(st["op"], vals)
                except Unspec:
                    expect_exec = False
                if expect_exec:
                    V.append(Violation("result", "not-executed:%s" % st["op"], "statement %d `%s` never executed its operator" % (sid, stmt_text(st))))
                    break
                if st.get("dst") and not err:
                    envs[c][st["dst"]] = UNKNOWN      # (after an error the assignment was never reached: the binding stays)
                continue
            res, note, opidx = pending.pop(sid)
            if err and note in ("ok", "ok-grow", "ok-container-key", "ok-scalar", "present", "absent"):
                V.append(Violation("result", "unexpected-error:%s:%s" % (st["op"], note), "statement %d `%s` raised an error although the operation is valid" % (sid, stmt_text(st))))
                break
            if st.get("dst"):
                if err or res is NORES:
                    envs[c][st["dst"]] = UNKNOWN if not err else envs[c][st["dst"]]
                elif isinstance(res, tuple) and res[0] == "multiset":
                    # the order of keys is the VM's business: take it from the VM's rendering of the fresh array
                    sut_items = p[1] if len(p) > 1 and isinstance(p[1], list) else None
                    pool = list(res[1])
                    out = []
                    ok = sut_items is not None and len(sut_items) == len(pool)
                    if ok:
                        for it in sut_items:
                            hit = None
                            for ci, cand in enumerate(pool):
                                try:
                                    if norm(struct(cand, 1)) == norm(it):
                                        hit = ci
                                        break
                                except Unspec:
                                    pass
                            if hit is None:
                                ok = False
                                break
                            out.append(pool.pop(hit))
                    if not ok:
                        V.append(Violation("result", "result:keys:%s" % note, "statement %d `%s` returned %s, the reference heap holds the keys %s" % (sid, stmt_text(st), json.dumps(jsonable(sut_items))[:200], show(res))))
                        break
                    envs[c][st["dst"]] = heap.arr(out)
                elif isinstance(res, tuple) and res[0] == "iter":
                    arr, items, size = res[1], res[2], res[3]
                    if arr.mut > opidx:
                        envs[c][st["dst"]] = UNKNOWN      # changed by another client while it was iterated
                    else:
                        body = st["args"][1][1]
                        envs[c][st["dst"]] = iterate(heap, st["op"], items, body)
                else:
                    envs[c][st["dst"]] = res
        elif idx in dump_at:
            p = dump_at[idx]
            c = None
            sid = p[0]
            if isinstance(sid, (int, float)) and int(sid) in owner:
                c = owner[int(sid)]
            roots_sut = p[2] if len(p) > 2 else []
            locals_sut = p[3] if len(p) > 3 else []
            nchecks += 1
            bad = None
            for i, r in enumerate(heap.roots):
                if i >= len(roots_sut):
                    bad = ("g%d" % i, "<missing>", r)
                    break
                try:
                    if norm(roots_sut[i]) != norm(struct(r, 0)):
                        bad = ("g%d" % i, roots_sut[i], r)
                        break
                except Unspec:
                    pass
            if bad is None and c is not None:
                for i, name in enumerate(ALL_LOCALS):
                    v = envs[c].get(name)
                    if v is UNKNOWN or i >= len(locals_sut):
                        continue
                    try:
                        if norm(locals_sut[i]) != norm(struct(v, 0)):
                            bad = (name, locals_sut[i], v)
                            break
                    except Unspec:
                        pass
            if not bad:
                since_good = []
            if bad:
                cyc = has_deep(bad[1]) if not isinstance(bad[1], str) else False
                # blame: a refused insertion if one happened, else the dump's own statement, else the first operation since the last agreeing dump
                what = "setup"
                if since_good:
                    refused = [w for i, w in since_good if w.endswith("cycle-refused")]
                    own = [w for i, w in since_good if isinstance(p[0], (int, float)) and i == int(p[0])]
                    what = (refused if (refused and cyc) else own or [since_good[0][1]])[0]
                key = ("cycle-created:%s" % what) if cyc else ("state:%s" % what)
                V.append(Violation("state", key, "after statement %s (%s) the heap differs at %s: VM %s, reference heap %s; recent operations %s" % (
                    p[0], stmt_text(stmts[int(p[0])]) if isinstance(p[0], (int, float)) and int(p[0]) in stmts else "-", bad[0], json.dumps(bad[1])[:300], show(bad[2]), last_ops[-4:])))
                break
    case["_checks"] = nchecks
    case["_fuzzy"] = heap.fuzzy
    out = {}
    for v in V:
        out.setdefault(v.key, v)
    return list(out.values())


def copy_probe(heap):
    return heap


def operator_defined(op, vals):
    a = vals[0] if vals else None
    b = vals[1] if len(vals) > 1 else None
    if op in ("pushBack", "pushBackUnique", "find"):
        return isinstance(a, Arr)
    if op in ("plus", "minus") and is_num(a) and is_num(b):
        return True
    if op == "append" or op in ("plus", "minus"):
        return isinstance(a, Arr) and isinstance(b, Arr)
    if op == "set":
        return isinstance(a, (Arr, HM)) and isinstance(b, Arr)
    if op == "deleteAt":
        return isinstance(a, HM) or (isinstance(a, Arr) and is_num(b))
    if op in ("deleteRange", "selrange"):
        return isinstance(a, Arr) and isinstance(b, Arr)
    if op in ("resize", "selidx"):
        return isinstance(a, Arr) and is_num(b)
    if op == "reverse":
        return isinstance(a, Arr)
    if op == "sort":
        return isinstance(a, Arr) and isinstance(b, bool)
    if op == "copy":
        return isinstance(a, (Arr, HM)) or is_num(a)
    if op in ("apply", "filter"):
        return isinstance(a, Arr)
    if op == "count":
        return isinstance(a, (Arr, HM))
    if op in ("isEqualTo", "str"):
        return True
    if op == "in":
        return isinstance(b, (Arr, HM))
    if op in ("get", "keys"):
        return isinstance(a, HM)
    if op == "fromArray":
        return isinstance(a, Arr)
    return False


def iterate(heap, op, items, body):
    out = []
    for x in items:
        if op == "apply":
            if body == "{_x}":
                out.append(x)
            elif body == "{[_x]}":
                out.append(heap.arr([x]))
            elif body == "{0}":
                out.append(0.0)
            elif body == "{_x isEqualTo 1}":
                if x is None:
                    return UNKNOWN
                out.append(is_num(x) and float(x) == 1.0)
            else:
                return UNKNOWN
        else:
            if body == "{true}":
                out.append(x)
            elif body == "{false}":
                pass
            elif body == "{_x isEqualType 0}":
                if x is None:
                    return UNKNOWN
                if is_num(x):
                    out.append(x)
            elif body == "{_x isEqualTo 1}":
                if x is None:
                    return UNKNOWN
                if is_num(x) and float(x) == 1.0:
                    out.append(x)
            else:
                return UNKNOWN
    return heap.arr(out)


def show(v):
    try:
        if isinstance(v, tuple) and v and v[0] == "multiset":
            return "keys " + json.dumps([jsonable(struct(x)) for x in v[1]])[:300]
        if v is NORES:
            return "<not judged>"
        return json.dumps(jsonable(struct(v)))[:300]
    except Exception as ex:       # noqa
        return "<%s>" % ex


def jsonable(x):
    if isinstance(x, sqfval.Raw):
        return str(x)
    if isinstance(x, list):
        return [jsonable(y) for y in x]
    if isinstance(x, tuple):
        return [jsonable(y) for y in x]
    return x


def stmt_text(st):
    name, build = OPS[st["op"]]
    t = build([p_expr(a) for a in st["args"]])
    return ("%s = %s" % (st["dst"], t)) if st.get("dst") else t


def judge_laws(case, ev):
    V = []
    laws = case.get("laws") or []
    if not laws:
        return V
    got = {}
    for e in ev:
        if e[1] == "t":
            p = sqfval.parse(e[4])
            if isinstance(p, list) and len(p) == 3 and p[0] == "LAW":
                got[int(p[1])] = p[2]
    heap = Heap()
    eqm = {}
    for j, law in enumerate(laws):
        if j not in got:
            continue
        r = got[j]
        x, y = law["x"], law["y"]
        desc = "x = %s, y = %s" % (p_expr(x), p_expr(y))
        tx = kind_of(x)
        ty = kind_of(y)
        cls = "%s-%s" % tuple(sorted([tx, ty]))
        if law["kind"] == "eq2":
            if not isinstance(r, list) or len(r) != 5:
                V.append(Violation("laws", "law:malformed:%s" % cls, "%s gave %r" % (desc, r)))
                continue
            xy, yx, hget, hin, hcount = r
            try:
                want = equal(ev_expr(heap, {}, x), ev_expr(heap, {}, y))
            except Unspec:
                want = None
            if xy != yx:
                V.append(Violation("laws", "law:not-symmetric:%s" % cls, "%s: x isEqualTo y = %r but y isEqualTo x = %r" % (desc, xy, yx)))
            if law["i"] == law["j"] and want is True and xy is not True:
                V.append(Violation("laws", "law:not-reflexive:%s" % cls, "%s: two separately built copies of one value are not equal (%r)" % (desc, xy)))
            if want is not None and codes_comparable(x, y) and xy != want:
                V.append(Violation("laws", "law:isEqualTo-wrong:%s" % cls, "%s: isEqualTo = %r, structural equality says %r" % (desc, xy, want)))
            if want is not None and xy is True:
                if hget != 1 or hin is not True or hcount != 1:
                    V.append(Violation("laws", "law:equal-but-hash-differs:%s" % cls, "%s compare equal, yet a hashmap holding x under key 1 answers get y = %r, y in = %r, count of {x,y} = %r" % (desc, hget, hin, hcount)))
            if want is not None and xy is False:
                if hget is not None or hin is not False or hcount != 2:
                    V.append(Violation("laws", "law:unequal-but-same-key:%s" % cls, "%s compare unequal, yet a hashmap treats them as one key: get = %r, in = %r, count = %r" % (desc, hget, hin, hcount)))
            eqm[(law["i"], law["j"])] = xy
            eqm[(law["j"], law["i"])] = yx
        elif law["kind"] == "mut":
            cls = "%s:%s" % (law["mut"][0], law["wrap"])
            desc = "h = %s hashed as key (%s), then h %s, compared with a separately built %s" % (p_expr(x), law["wrap"], " ".join([law["mut"][0]] + [p_expr(z) for z in law["mut"][1:]]), p_expr(y))
            if not isinstance(r, list) or len(r) != 8:
                V.append(Violation("laws", "law:malformed:mut:%s" % cls, "%s gave %r" % (desc, r)))
                continue
            pre, wg, gw, hget, hin, hcount, old_in, new_in = r
            same = equal(ev_expr(heap, {}, x), ev_expr(heap, {}, y))
            if pre != 1:
                V.append(Violation("laws", "law:mut:lookup-before:%s" % cls, "%s: the key was not found right after insertion (%r)" % (desc, pre)))
            if wg is not True or gw is not True:
                V.append(Violation("laws", "law:mut:not-equal-after:%s" % cls, "%s: isEqualTo = %r / %r" % (desc, wg, gw)))
            elif hget != 1 or hin is not True or hcount != 1:
                V.append(Violation("laws", "law:mut:equal-but-hash-differs:%s" % cls, "%s compare equal, yet a hashmap holding the fresh one answers get = %r, in = %r, count of both = %r" % (desc, hget, hin, hcount)))
            if old_in is not True:
                V.append(Violation("laws", "law:mut:key-not-captured:%s" % cls, "%s: the content at insertion is no longer a key of the outer map" % desc))
            if new_in is not same:
                V.append(Violation("laws", "law:mut:key-followed-mutation:%s" % cls, "%s: mutated value in outer map = %r, expected %r" % (desc, new_in, same)))
        else:
            if not isinstance(r, list) or len(r) != 3:
                continue
            a, b, iso = r
            try:
                want = equal(ev_expr(heap, {}, x), ev_expr(heap, {}, y))
            except Unspec:
                continue
            if x[0] == "s":
                want_op = x[1].lower() == y[1].lower()
            else:
                want_op = want
            if a != want_op or b != want_op:
                V.append(Violation("laws", "law:==-disagrees:%s" % cls, "%s: == gives %r / %r, isEqualTo %r, expected == to be %r" % (desc, a, b, iso, want_op)))
    # transitivity on the observed relation
    n = max([l["j"] for l in laws] + [0]) + 1
    vals = {}
    for l in laws:
        if l["kind"] == "mut":
            continue
        vals[l["i"]] = l["x"]
        vals[l["j"]] = l["y"]
    for a in range(n):
        for b in range(n):
            for c in range(n):
                if eqm.get((a, b)) is True and eqm.get((b, c)) is True and eqm.get((a, c)) is False:
                    if not any(has_nil(vals[k]) for k in (a, b, c)):
                        V.append(Violation("laws", "law:not-transitive", "%s = %s = %s but first and last differ" % (p_expr(vals[a]), p_expr(vals[b]), p_expr(vals[c]))))
    return V


def kind_of(e):
    return {"n": "scalar", "s": "string", "b": "bool", "c": "code", "arr": "array", "hm": "hashmap"}.get(e[0], "?")


def has_nil(e):
    return False


def codes_comparable(x, y):
    return True


# ---------------------------------------------------------------------------------------------
# bookkeeping for the driver
# ---------------------------------------------------------------------------------------------
def signature(case, hs):
    h = hs[0]
    if "crash" in h:
        return None
    m = hashlib.sha256()
    m.update(repr([[(s["op"], s["args"][0][0], bool(s.get("mutating_body"))) for s in c] for c in case["clients"]]).encode())
    m.update(repr(case["kinds"]).encode())
    m.update(repr(sorted((case.get("sched") or {}).items())).encode())
    nst = sum(len(c) for c in case["clients"])
    if nst < 3:
        return None
    return m.hexdigest()[:16]


def stats(case, hs):
    ops = {}
    for c in case["clients"]:
        for s in c:
            ops[s["op"]] = ops.get(s["op"], 0) + 1
    h = hs[0]
    sw = 0
    if "events" in h:
        last = None
        for e in h["events"]:
            if e[1] == "op":
                if last is not None and e[3] != last:
                    sw += 1
                last = e[3]
    cn = h.get("counters", {}) if isinstance(h, dict) else {}
    return {"executions": 1, "instr": cn.get("instr", 0), "sim_time_s": max(0.0, (cn.get("clock_end_ns", 1600000000 * 10**9) - 1600000000 * 10**9) / 1e9),
            "statements": sum(len(c) for c in case["clients"]), "ops": ops, "clients": len(case["clients"]),
            "client_switches_between_operations": sw, "laws": len(case.get("laws") or []), "checks": case.get("_checks", 0),
            "exact_judging_stopped": 1 if case.get("_fuzzy") else 0}


def sample_view(case):
    return {"setup": [p_expr(e) for e in case["setup"]], "clients": [[stmt_text(s) for s in c][:10] for c in case["clients"]], "sched": case.get("sched")}


def shrink_candidates(case):
    # drop statements (last first), drop clients, drop the schedule, drop laws
    for c in range(len(case["clients"]) - 1, -1, -1):
        if len(case["clients"]) > 1:
            k = copy.deepcopy(case)
            del k["clients"][c]
            k["plan"] = plan_of(k)
            yield k
    for c in range(len(case["clients"])):
        for i in range(len(case["clients"][c]) - 1, -1, -1):
            k = copy.deepcopy(case)
            del k["clients"][c][i]
            k["plan"] = plan_of(k)
            yield k
    if case.get("laws"):
        k = copy.deepcopy(case)
        k["laws"] = []
        k["plan"] = plan_of(k)
        yield k
        for i in range(len(case["laws"]) - 1, -1, -1):
            k = copy.deepcopy(case)
            del k["laws"][i]
            k["plan"] = plan_of(k)
            yield k
    if case.get("sched"):
        k = copy.deepcopy(case)
        k["sched"] = {"slice_default": 150} if len(case["clients"]) > 1 else {}
        k["plan"] = plan_of(k)
        yield k
    for i in range(len(case["setup"]) - 1, -1, -1):
        e = case["setup"][i]
        if e[0] in ("arr", "hm") and e[1]:
            k = copy.deepcopy(case)
            k["setup"][i] = [e[0], []]
            k["plan"] = plan_of(k)
            yield k
