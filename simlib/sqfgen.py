"""Typed random generator for the SQF core handled by simlib/sqf.py.

Programs are type-correct and terminating by construction, so every diagnostic of error level that a
run produces was either planted (fault__ / natural exit-behaviour errors, when enabled) or is a finding.
"""
import random

NUM, BOOL, ARR, ANY = "num", "bool", "arr", "any"


class Env:
    """static approximation of the dynamic scope chain (blocks are inlined, so lexical = dynamic)"""

    def __init__(self):
        self.scopes = [{}]           # name(lower) -> type
        self.globals = {}            # (ns, name lower) -> type
        self.ns = ["missionNamespace"]
        self.named = []              # [(scope name, type the named construct yields, scope depth)]
        self.try_depth = 0
        self.loop_vars = set()
        self.loop_depth = 0
        self.fn_names = []
        self.dead = []               # names declared in scopes that have ended (must read as nil unless visible again)

    def lookup(self, name):
        n = name.lower()
        for sc in reversed(self.scopes):
            if n in sc:
                return sc[n]
        return None

    def vars_of(self, ty):
        out = []
        seen = set()
        for sc in reversed(self.scopes):
            for n, t in sc.items():
                if n in seen:
                    continue
                seen.add(n)
                if t == ty and n not in self.loop_vars:
                    out.append(n)
        return sorted(out)

    def all_visible(self):
        seen = {}
        for sc in reversed(self.scopes):
            for n, t in sc.items():
                seen.setdefault(n, t)
        return seen


class Opts:
    def __init__(self, **kw):
        self.max_depth = 4
        self.max_stmts = 6
        self.budget = 60            # total statement budget
        self.faults = 0.0           # probability weight of fault statements/expressions
        self.natural_faults = 0.0
        self.handlers = 0.0
        self.spawn = 0.0
        self.with_ns = 0.0
        self.fn = 0.0
        self.scoping = 0.3          # private/params/shadowing statements
        self.case_mix = 0.3
        self.early = 0.25           # exitWith / breakOut / throw
        self.loops = 0.3
        self.valueless_loops = 0.0  # loops whose body ends in an assignment, used as operands (C05 stress)
        self.sleep = 0.0
        self.gprefix = "gv"
        self.k0 = 0
        self.uid0 = 0
        self.__dict__.update(kw)


class Gen:
    def __init__(self, rng, opts):
        self.r = rng
        self.o = opts
        self.k = opts.k0
        self.budget = opts.budget
        self.uid = opts.uid0
        self.fault_tag = 100
        self.n_faults = 0
        self.max_faults = 1 if opts.faults or opts.natural_faults else 0
        self.spawn_count = 0
        self.features = set()

    # ---------------------------------------------------------------- names
    def fresh(self, prefix):
        self.uid += 1
        return "%s%d" % (prefix, self.uid)

    def spell(self, name):
        if self.r.random() < self.o.case_mix:
            return "".join(c.upper() if self.r.random() < 0.5 else c.lower() for c in name)
        return name

    def marker(self):
        self.k += 1
        return self.k

    # ---------------------------------------------------------------- program
    def program(self):
        env = Env()
        env.scopes[0]["_this"] = ANY
        blk = self.block(env, 0, None, None, top=True, n=self.r.randint(3, self.o.max_stmts + 3))
        return [["t", self.marker(), None]] + blk

    # ---------------------------------------------------------------- blocks
    def block(self, env, depth, want, exit_ty, top=False, n=None, allow_early=True, named_ok=True, new_scope=True, pre=None):
        """Generates a block evaluated in a fresh scope. `want`: type of the block value (None: don't care).
        `exit_ty`: type an exitWith in this block must yield ('skip' = exitWith not allowed here)."""
        if new_scope:
            env.scopes.append({})
        gmark = set(env.globals)     # globals first assigned inside this block are only known to be defined inside it
        if pre:
            env.scopes[-1].update(pre)
        named_here = None
        out = []
        if n is None:
            n = self.r.randint(1, max(1, int(self.o.max_stmts - depth)))
        # optional scope name (never in loops: their scope is re-entered)
        if named_ok and not top and self.r.random() < self.o.early and want is not None and depth < self.o.max_depth:
            # names come from a small pool half of the time: nested scopes may then carry the same name, and
            # breakOut must leave the innermost one of that name
            nm = self.r.choice(["sA", "sA", "sB"]) if self.r.random() < 0.65 else self.fresh("s")
            out.append(["scopeName", nm])
            env.named.append((nm, want, len(env.scopes)))
            named_here = nm
            self.features.add("scopeName")
        for i in range(n):
            if self.budget <= 0:
                break
            self.budget -= 1
            out.extend(self.statement(env, depth, exit_ty if allow_early else "skip"))
        if want is not None:
            out.append(["e", self.expr(env, depth + 0.34, want)])
        elif self.r.random() < 0.3:
            out.append(["t", self.marker(), None])
        if named_here:
            env.named.pop()
        if new_scope:
            gone = env.scopes.pop()
            for nme in gone:
                if nme.startswith("_v") and len(env.dead) < 40:
                    env.dead.append(nme)
        for key in list(env.globals):
            if key not in gmark:
                del env.globals[key]
        return out

    def statement(self, env, depth, exit_ty):
        o = self.o
        deep = depth >= o.max_depth
        choices = [("trace", 0.30), ("assign", 0.16), ("scoping", o.scoping * 0.4), ("global", 0.10)]
        if exit_ty != "skip":
            choices.append(("early", o.early * 0.6))
        if self.n_faults < self.max_faults:
            choices.append(("fault", o.faults * 0.3))
        if not deep:
            if self.spawn_count < 3 and env.loop_depth == 0:
                choices.append(("spawn", o.spawn * 0.3))   # never inside loops: instances of one spawn site would share globals
            choices.append(("with", o.with_ns * 0.3))
            choices.append(("fn", o.fn * 0.3))
            choices.append(("construct", 0.25))
        total = sum(w for _, w in choices)
        r = self.r.random() * total
        pick = choices[-1][0]
        for name, w in choices:
            if r < w:
                pick = name
                break
            r -= w
        if pick == "trace":
            ty = self.r.choice([NUM, NUM, BOOL, ARR, ANY])
            return [["t", self.marker(), self.expr(env, depth + 0.34, ty)]]
        if pick == "assign":
            return self.assign(env, depth)
        if pick == "scoping":
            return self.scoping_stmt(env, depth)
        if pick == "early":
            return self.early_stmt(env, depth, exit_ty)
        if pick == "fault":
            self.n_faults += 1
            self.fault_tag += 1
            self.features.add("fault_stmt")
            return [["t", self.marker(), None], ["e", ["fault", self.fault_tag]], ["t", self.marker(), None]]
        if pick == "spawn":
            return self.spawn_stmt(env, depth)
        if pick == "with":
            ns = self.r.choice(["uiNamespace", "missionNamespace", "parsingNamespace"])
            env.ns.append(ns)
            blk = self.block(env, depth + 1, None, "skip")
            env.ns.pop()
            self.features.add("with")
            return [["with", ns, blk]]
        if pick == "fn":
            return self.fn_stmt(env, depth)
        if pick == "global":
            return self.global_stmt(env, depth)
        return [["e", self.construct(env, depth + 1, self.r.choice([NUM, BOOL, ARR]))]]

    def assign(self, env, depth):
        ty = self.r.choice([NUM, NUM, BOOL, ARR])
        existing = env.vars_of(ty)
        if existing and self.r.random() < 0.5:
            n = self.r.choice(existing)
            if n == "_this" or n == "_x" or n == "_foreachindex" or n == "_exception":
                return [["t", self.marker(), ["lvar", self.spell(n)]]]
            return [["lset", self.spell(n), self.expr(env, depth + 1, ty)]]
        n = self.fresh("_v")
        e = self.expr(env, depth + 1, ty)
        env.scopes[-1][n] = ty
        if self.r.random() < 0.5:
            return [["lpriv", n, e]]
        return [["lset", n, e]]

    def scoping_stmt(self, env, depth):
        r = self.r.random()
        vis = env.all_visible()
        self.features.add("scoping")
        if r < 0.25:
            # shadow an outer variable with private, possibly with another type
            outer = [n for n in vis if n not in env.scopes[-1] and n.startswith("_v")]
            if outer:
                n = self.r.choice(sorted(outer))
                ty = self.r.choice([NUM, BOOL, ARR])
                e = self.expr(env, depth + 1, ty)
                env.scopes[-1][n] = ty
                return [["lpriv", self.spell(n), e], ["t", self.marker(), ["lvar", self.spell(n)]]]
        if r < 0.45:
            # private "name" / private [names]: declares nil holders in the current scope
            names = [self.fresh("_v") for _ in range(self.r.randint(1, 2))]
            for n in names:
                env.scopes[-1][n] = ANY
            out = [["priv", names], ["t", self.marker(), ["lvar", names[0]]]]
            if self.r.random() < 0.6:
                # assign from a nested scope: must land in the holder declared here and be visible afterwards
                out.append(["e", ["call", [["lset", self.spell(names[0]), self.lit(NUM)]]]])
                out.append(["t", self.marker(), ["lvar", names[0]]])
            return out
        if r < 0.85:
            # params from a literal array; the array may be SHORTER than the name list (the remaining names must still be
            # bound - to nil - in the current scope), and names may shadow variables of calling scopes
            outer = sorted(n for n in vis if n not in env.scopes[-1] and n.startswith("_v"))
            names = []
            for _ in range(self.r.randint(1, 3)):
                if outer and self.r.random() < 0.6:
                    names.append(outer.pop(self.r.randrange(len(outer))))
                else:
                    names.append(self.fresh("_v"))
            given = len(names) if self.r.random() < 0.35 else self.r.randint(0, len(names))
            elems = []
            tys = []
            for n in names[:given]:
                ty = self.r.choice([NUM, BOOL, ARR])
                elems.append(self.expr(env, depth + 2, ty))
                tys.append(ty)
            tys += [ANY] * (len(names) - given)
            for n, ty in zip(names, tys):
                env.scopes[-1][n] = ty
            out = [["params", ["arr", elems], [self.spell(n) for n in names]]]
            for n in names[given:]:
                out.append(["t", self.marker(), ["lvar", self.spell(n)]])
                if self.r.random() < 0.6:
                    out.append(["lset", self.spell(n), self.lit(NUM)])      # must stay in this scope
                    env.scopes[-1][n] = NUM
            return out
        # read of a variable that is not visible (must be nil): never defined, or defined in a scope that has ended
        vis = env.all_visible()
        dead = [n for n in env.dead if n not in vis]
        if dead and self.r.random() < 0.7:
            n = self.r.choice(dead)
            return [["t", self.marker(), ["lvar", self.spell(n)]], ["t", self.marker(), ["isNils", self.spell(n)]]]
        n = self.fresh("_u")
        return [["t", self.marker(), ["lvar", n]], ["t", self.marker(), ["isNils", n]]]

    def global_stmt(self, env, depth):
        ns = env.ns[-1]
        ty = self.r.choice([NUM, BOOL, ARR])
        cands = sorted(n for (s, n), t in env.globals.items() if s == ns and t == ty)
        r = self.r.random()
        self.features.add("global")
        if cands and r < 0.4:
            n = self.r.choice(cands)
            return [["t", self.marker(), ["gvar", self.spell(n)]]]
        if cands and r < 0.55:
            n = self.r.choice(cands)
            return [["t", self.marker(), ["getvar", ns, self.spell(n)]]]
        if r < 0.7 and self.o.with_ns:
            # setVariable on an explicit namespace
            ns2 = self.r.choice(["uiNamespace", "missionNamespace", "parsingNamespace"])
            n = self.fresh(self.o.gprefix)
            e = self.expr(env, depth + 1, ty)
            env.globals[(ns2, n)] = ty
            return [["setvar", ns2, self.spell(n), e], ["t", self.marker(), ["getvar", ns2, self.spell(n)]]]
        n = self.r.choice(cands) if (cands and r < 0.85) else self.fresh(self.o.gprefix)
        e = self.expr(env, depth + 1, ty)
        env.globals[(ns, n)] = ty
        return [["gset", self.spell(n), e]]

    def early_stmt(self, env, depth, exit_ty):
        r = self.r.random()
        cond = self.expr(env, depth + 1, BOOL) if self.r.random() < 0.6 else ["bool", True]
        if r < 0.35 or (not env.named and env.try_depth == 0):
            # exitWith: its block yields what the construct owning this scope must yield
            self.features.add("exitWith")
            blk = self.block(env, depth + 1, exit_ty if exit_ty in (NUM, BOOL, ARR) else None, "skip", allow_early=False, named_ok=False)
            return [["exitWith", cond, blk]]
        if env.named and (r < 0.8 or env.try_depth == 0):
            nm = self.r.choice(env.named)[0]
            # the target is the innermost enclosing scope of that name: its type decides the value
            nm, ty, _ = [x for x in env.named if x[0] == nm][-1]
            self.features.add("breakOut")
            v = self.expr(env, depth + 1, ty) if ty in (NUM, BOOL, ARR) else None
            return [["e", ["if", cond, [["t", self.marker(), None], ["breakOut", nm, v]], None]]]
        self.features.add("throw")
        return [["e", ["if", cond, [["t", self.marker(), None], ["throw", self.expr(env, depth + 1, NUM)]], None]]]

    def spawn_stmt(self, env, depth):
        self.spawn_count += 1
        self.features.add("spawn")
        # the spawned script sees none of the starter's locals: trace some of them (expect nil)
        vis = sorted(n for n in env.all_visible() if n.startswith("_v"))
        saved = (env.scopes, env.named, env.try_depth, env.ns, env.loop_vars)
        env.scopes = [{"_this": ARR}]
        env.named = []
        env.try_depth = 0
        env.ns = ["missionNamespace"]
        env.loop_vars = set()
        body = [["t", self.marker(), None]]
        for n in vis[:2]:
            body.append(["t", self.marker(), ["lvar", n]])
        body.append(["t", self.marker(), ["lvar", "_this"]])
        if self.o.sleep and self.r.random() < self.o.sleep:
            body.append(["sleep", self.r.choice([0, 0.25, 1, 3])])
        old_globals = env.globals
        env.globals = {}      # spawned scripts share no data with others: they never read globals written elsewhere
        body += self.block(env, depth + 1, None, None, new_scope=False, n=self.r.randint(1, 4))
        env.globals = old_globals
        (env.scopes, env.named, env.try_depth, env.ns, env.loop_vars) = saved
        arg = ["arr", [self.lit(NUM), self.lit(NUM)]]
        return [["spawn", None, arg, body]]

    def fn_stmt(self, env, depth):
        """code stored in a variable and called from a different dynamic scope (dynamic lookup)."""
        self.features.add("fn")
        pool = ["_p0", "_p1", "_p2"]
        body = []
        for _ in range(self.r.randint(1, 3)):
            r = self.r.random()
            n = self.r.choice(pool)
            if r < 0.5:
                body.append(["t", self.marker(), ["lvar", self.spell(n)]])
            elif r < 0.75:
                body.append(["lset", self.spell(n), self.lit(NUM)])
            else:
                body.append(["lpriv", self.spell(n), self.lit(NUM)])
        body.append(["t", self.marker(), ["lvar", self.spell(self.r.choice(pool))]])
        fn = self.fresh("_f")
        out = [["lset", fn, ["code", body]]]
        env.scopes[-1][fn] = "code"
        # call it from here and from a nested scope that defines some pool names
        calls = []
        for _ in range(self.r.randint(1, 2)):
            pre = []
            inner = {}
            for n in pool:
                if self.r.random() < 0.5:
                    pre.append(["lpriv", n, self.lit(NUM)])
                    inner[n] = NUM
            blk = pre + [["e", ["callv", ["lvar", fn], None]]] + [["t", self.marker(), ["lvar", n]] for n in sorted(inner)]
            calls.append(["e", ["call", blk]])
        return out + calls

    # ---------------------------------------------------------------- expressions
    def lit(self, ty):
        if ty == NUM:
            return ["num", self.r.randint(-9, 20)]
        if ty == BOOL:
            return ["bool", self.r.random() < 0.5]
        if ty == ARR:
            return ["arr", [["num", self.r.randint(0, 9)] for _ in range(self.r.randint(0, 4))]]
        return self.r.choice([["nil"], ["num", self.r.randint(0, 9)], ["str", self.r.choice(["a", "B", "x y", 'q"t'])], ["bool", True]])

    def expr(self, env, depth, ty):
        if self.o.faults and self.n_faults < self.max_faults and self.r.random() < self.o.faults * 0.05:
            # an erroring operation in place of any operand / condition / block value
            self.n_faults += 1
            self.fault_tag += 1
            self.features.add("fault_any_position")
            return ["fault", self.fault_tag]
        if ty == ANY:
            if self.o.valueless_loops and depth < self.o.max_depth and self.budget > 0 and self.r.random() < self.o.valueless_loops:
                return self.valueless_construct(env, depth)
            ty = self.r.choice([NUM, BOOL, ARR, ANY])
            if ty == ANY:
                return self.lit(ANY)
        r = self.r.random()
        if depth >= self.o.max_depth + 1 or self.budget <= 0:
            return self.leaf(env, ty)
        if r < 0.35:
            return self.leaf(env, ty)
        if r < 0.60:
            return self.op_expr(env, depth, ty)
        if self.o.faults and self.n_faults < self.max_faults and self.r.random() < self.o.faults * 0.15:
            self.n_faults += 1
            self.fault_tag += 1
            self.features.add("fault_expr")
            # fault as an operand of an array under construction
            return ["bin", "select", ["arr", [self.leaf(env, ty), ["fault", self.fault_tag], self.leaf(env, ty)]], ["num", 0]]
        self.budget -= 1
        return self.construct(env, depth, ty)

    def valueless_construct(self, env, depth):
        """a construct used as an operand whose block ends in a statement that leaves no value: it must yield nil"""
        self.features.add("valueless_operand")
        self.budget -= 1
        d = depth + 1
        r = self.r.random()
        tail = [["lset", self.fresh("_v"), self.lit(NUM)]]
        def blk(pre=None):
            b = self.block(env, d, None, "skip", allow_early=False, named_ok=False, pre=pre, n=self.r.randint(0, 2))
            if b and b[-1][0] == "t" and b[-1][2] is None:
                b.pop()
            if not b or b[-1][0] == "t" or self.r.random() < 0.7:
                b = b + tail
            return b
        if r < 0.3:
            return ["call", blk()]
        if r < 0.45:
            return ["if", self.expr(env, d, BOOL), blk(), blk()]
        if r < 0.65:
            return ["forEach", blk({"_x": NUM, "_foreachindex": NUM}), self.nonempty_arr(env, d)]
        if r < 0.85:
            var = self.fresh("_i")
            a = self.r.randint(0, 2)
            env.loop_vars.add(var)
            body = blk({var: NUM})
            env.loop_vars.discard(var)
            return ["for", var, ["num", a], ["num", a + self.r.randint(0, 2)], None, body]
        return ["try", blk(), blk({"_exception": NUM})]

    def leaf(self, env, ty):
        vs = env.vars_of(ty)
        if vs and self.r.random() < 0.5:
            return ["lvar", self.spell(self.r.choice(vs))]
        ns = env.ns[-1]
        gs = sorted(n for (s, n), t in env.globals.items() if s == ns and t == ty)
        if gs and self.r.random() < 0.25:
            return ["gvar", self.spell(self.r.choice(gs))]
        return self.lit(ty)

    def op_expr(self, env, depth, ty):
        d = depth + 0.34     # operator nesting is cheap: three levels count as one block level
        if ty == NUM:
            r = self.r.random()
            if r < 0.5:
                return ["bin", self.r.choice(["+", "-"]), self.expr(env, d, NUM), self.expr(env, d, NUM)]
            if r < 0.6:
                return ["bin", "*", self.expr(env, d, NUM), ["num", self.r.randint(0, 3)]]
            if r < 0.8:
                return ["un", "count", self.expr(env, d, ARR)]
            arr = ["arr", [self.expr(env, d + 1, NUM) for _ in range(self.r.randint(1, 3))]]
            return ["bin", "select", arr, ["num", self.r.randint(0, len(arr[1]) - 1)]]
        if ty == BOOL:
            r = self.r.random()
            if r < 0.45:
                return ["bin", self.r.choice(["==", "!=", "<", ">", "<=", ">="]), self.expr(env, d, NUM), self.expr(env, d, NUM)]
            if r < 0.6:
                return ["un", "!", self.expr(env, d, BOOL)]
            if r < 0.75:
                return ["bin", self.r.choice(["&&", "||"]), self.expr(env, d, BOOL), self.expr(env, d, BOOL)]
            if r < 0.9:
                self.features.add("lazy")
                blk = self.block(env, d, BOOL, "skip", allow_early=False, named_ok=False, n=self.r.randint(0, 1))
                return ["lazy", self.r.choice(["&&", "||"]), self.expr(env, d, BOOL), blk]
            self.features.add("isNil")
            return ["isNilc", self.block(env, d, self.r.choice([NUM, ANY]), "skip", allow_early=False, named_ok=False, n=0)]
        if ty == ARR:
            return ["arr", [self.expr(env, d, NUM) for _ in range(self.r.randint(0, 3))]]
        return self.lit(ty)

    def nonempty_arr(self, env, depth):
        if self.r.random() < 0.5:
            return ["arr", [["num", self.r.randint(0, 9)] for _ in range(self.r.randint(1, 6))]]
        return ["arr", [self.expr(env, depth + 1, NUM) for _ in range(self.r.randint(1, 4))]]

    def construct(self, env, depth, ty):
        """a control construct yielding a value of type ty"""
        r = self.r.random()
        d = depth + 1
        o = self.o
        if self.o.handlers and self.r.random() < self.o.handlers * 0.4:
            self.features.add("except")
            saved_try = env.try_depth
            env.try_depth = 0      # a throw directly under except__ would be taken by it; the statements do not fix that
            a = self.block(env, d, ty, ty)
            h = self.block(env, d, ty, ty, pre={"_exception": "exc"}, named_ok=False)
            if self.o.natural_faults and self.n_faults < self.max_faults and self.r.random() < 0.35:
                # an error raised by an exit behaviour on the LAST iteration, as right-hand side of an assignment: nothing after the
                # faulting construct may run, not even the one instruction that would store its value
                self.n_faults += 1
                self.features.add("natural_fault")
                self.features.add("natural_fault_rhs")
                g = "%sq%d" % (self.o.gprefix, self.r.randint(10 ** 6, 10 ** 7))    # (globals outlive a run of the VM: never reuse a name)
                op = self.r.choice(["count", "findIf", "selectc"])
                arr = ["arr", [["num", self.r.randint(0, 9)]]]
                body = [["e", ["num", self.r.randint(0, 5)]]]
                rhs = ["count", body, arr] if op == "count" else [op, arr, body]
                a = a[:-1] + [["gset", g, rhs]] + a[-1:]
                h.insert(0, ["t", self.marker(), ["isNils", g]])
            h.insert(0, ["t", self.marker(), ["exc_has", 101]])   # the single planted fault of a program always carries tag 101
            env.try_depth = saved_try
            return ["except", a, h]
        if r < 0.2:
            self.features.add("call")
            if self.r.random() < 0.5:
                return ["call", self.block(env, d, ty, ty)]
            return ["callarg", self.expr(env, d, self.r.choice([NUM, ARR])), self.block(env, d, ty, ty, pre={"_this": ANY})]
        if r < 0.4:
            self.features.add("if")
            return ["if", self.expr(env, d, BOOL), self.block(env, d, ty, ty), self.block(env, d, ty, ty)]
        if r < 0.52:
            return self.switch(env, d, ty)
        if r < 0.60:
            self.features.add("try")
            env.try_depth += 1
            a = self.block(env, d, ty, ty)
            env.try_depth -= 1
            c = self.block(env, d, ty, ty, pre={"_exception": NUM}, named_ok=False)  # runs in the try frame: no second scopeName
            return ["try", a, c]
        if r < 0.60 + o.loops:
            return self.loop(env, d, ty)
        return ["call", self.block(env, d, ty, ty)]

    def switch(self, env, depth, ty):
        self.features.add("switch")
        subject = self.expr(env, depth, NUM) if self.r.random() < 0.5 else ["num", self.r.randint(0, 4)]
        # one switch in five selects on strings whose spellings differ only in letter case: labels match exactly (isEqualTo)
        spool = ["a", "A", "ab", "Ab", "aB"] if self.r.random() < 0.2 else None
        label = (lambda: ["str", self.r.choice(spool)]) if spool else (lambda: ["num", self.r.randint(0, 4)])
        if spool:
            self.features.add("switch-string")
            subject = ["str", self.r.choice(spool)]
        items = []
        env.scopes.append({})
        n = self.r.randint(1, 4)
        have_default = False
        for i in range(n):
            r = self.r.random()
            if r < 0.15 and not have_default:
                items.append(["default", self.block(env, depth + 1, ty, ty, named_ok=False)])
                have_default = True
            elif r < 0.3:
                items.append(["t", self.marker(), None])
            elif r < 0.5:
                items.append(["case", label(), None])  # fall-through
            else:
                items.append(["case", label(), self.block(env, depth + 1, ty, ty, named_ok=False)])
        # a trailing fall-through would leave a dangling case: close it
        if items and items[-1][0] == "case" and items[-1][2] is None:
            items.append(["case", label(), self.block(env, depth + 1, ty, ty, named_ok=False)])
        if not have_default and self.r.random() < 0.5:
            items.append(["default", self.block(env, depth + 1, ty, ty, named_ok=False)])
            have_default = True
        env.scopes.pop()
        if not have_default:
            # without default the switch may yield nil: wrap so that the type stays ty
            return ["call", [["lpriv", "_sw", ["switch", subject, items]], ["e", ["if", ["isNils", "_sw"], [["e", self.lit(ty)]], [["e", ["lvar", "_sw"]]]]]]]
        return ["switch", subject, items]

    def pred_body(self, env, depth, exit_ty, arr):
        """body of count/findIf/select: usually a predicate over _x that singles out particular elements"""
        body = self.block(env, depth, BOOL, exit_ty, named_ok=False, pre={"_x": NUM})
        if self.o.natural_faults and self.n_faults < self.max_faults and self.r.random() < self.o.natural_faults * 0.3:
            self.n_faults += 1
            self.features.add("natural_fault")
            body[-1] = ["e", ["num", self.r.randint(0, 5)]]    # non-boolean predicate result: error raised by the iteration behaviour
            return body
        if self.r.random() < 0.6:
            lits = [x[1] for x in arr[1] if x[0] == "num"]
            c = self.r.choice(lits) if (lits and self.r.random() < 0.7) else self.r.randint(-3, 10)
            body[-1] = ["e", ["bin", self.r.choice(["==", "==", ">", "<", ">=", "!="]), ["lvar", "_x"], ["num", c]]]
        return body

    def loop(self, env, depth, ty):
        env.loop_depth += 1
        try:
            return self.loop_(env, depth, ty)
        finally:
            env.loop_depth -= 1

    def loop_(self, env, depth, ty):
        r = self.r.random()
        self.features.add("loop")
        if ty == NUM:
            if r < 0.25:
                # count with code
                arr = self.nonempty_arr(env, depth) if self.r.random() < 0.8 else ["arr", []]
                return ["count", self.pred_body(env, depth, NUM, arr), arr]
            if r < 0.45:
                arr = self.nonempty_arr(env, depth) if self.r.random() < 0.8 else ["arr", []]
                return ["findIf", arr, self.pred_body(env, depth, NUM, arr)]
            if r < 0.7:
                arr = self.nonempty_arr(env, depth)
                body = self.block(env, depth, NUM, NUM, named_ok=False, pre={"_x": NUM, "_foreachindex": NUM})
                return ["forEach", body, arr]
            if r < 0.9:
                return self.for_loop(env, depth, NUM)
            return self.while_wrapped(env, depth, NUM)
        if ty == ARR:
            arr = self.nonempty_arr(env, depth) if self.r.random() < 0.8 else ["arr", []]
            if r < 0.5:
                body = self.block(env, depth, NUM, ARR, named_ok=False, pre={"_x": NUM})
                return ["apply", arr, body]
            return ["selectc", arr, self.pred_body(env, depth, ARR, arr)]
        if ty == BOOL:
            if r < 0.5:
                arr = self.nonempty_arr(env, depth)
                body = self.block(env, depth, BOOL, BOOL, named_ok=False, pre={"_x": NUM, "_foreachindex": NUM})
                return ["forEach", body, arr]
            if r < 0.8:
                return self.for_loop(env, depth, BOOL)
            return self.while_wrapped(env, depth, BOOL)
        return ["call", self.block(env, depth, ty, ty)]

    def for_loop(self, env, depth, ty):
        var = self.fresh("_i")
        a = self.r.randint(-2, 3)
        step = self.r.choice([None, 1, 2, 3, -1, -2])
        s = 1 if step is None else step
        n = self.r.randint(1, 5)
        b = a + s * (n - 1) + (self.r.choice([0, 1]) if abs(s) > 1 else 0) * (1 if s > 0 else -1)
        env.loop_vars.add(var)
        pre = {var: NUM}
        body = self.block(env, depth, ty, ty, named_ok=False, pre=pre)
        # reading the loop variable is always fine
        body.insert(0, ["t", self.marker(), ["lvar", self.spell(var)]])
        if s > 0 and self.r.random() < 0.2:
            body.insert(1, ["lset", var, ["bin", "+", ["lvar", var], ["num", 1]]])
        env.loop_vars.discard(var)
        return ["for", var, ["num", a], ["num", b], None if step is None else ["num", step], body]

    def while_wrapped(self, env, depth, ty):
        """while loop driven by a counter; wrapped in a call that yields a value of type ty (the value of
        the while construct itself is not fixed by the statement)"""
        cnt = self.fresh("_w")
        n = self.r.randint(0, 4)
        env.scopes.append({cnt: "cnt"})
        body = [["lset", cnt, ["bin", "+", ["lvar", cnt], ["num", 1]]]]
        body += self.block(env, depth + 1, None, "skip", named_ok=False, new_scope=True, allow_early=False)
        cond = [["e", ["bin", "<", ["lvar", cnt], ["num", n]]]]
        res = self.expr(env, depth + 1, ty)
        env.scopes.pop()
        return ["call", [["lpriv", cnt, ["num", 0]], ["e", ["while", cond, body]], ["t", self.marker(), ["lvar", cnt]], ["e", res]]]
