"""C11 — execution bounds: maximum runtime per run, loop cap in unscheduled code.

Simulated run: 1..4 consecutive runs on one VM; each run loads a program from a family of non-terminating or
terminating shapes; the virtual clock charges a seeded cost per instruction/poll so the deadline falls at an
arbitrary instruction, and is advanced by a seeded amount (possibly far beyond the limit) between runs.
"""
import copy
import hashlib

from ..core import Violation, crash_site
from .. import progcheck as pc

PROP = "C11"
LEVEL = "exploration"
RUNS = {"quick": 5000, "thorough": 250000}
TIME_CAP = {"quick": 150, "thorough": 1500}
RULE = ("1-4 runs per VM drawn from non-terminating families (every loop kind, recursion through call, scripts spawning each other, "
        "waitUntil, everybody asleep) and terminating ones, limit 5..500 ms, seeded per-instruction cost, clock advanced between runs; "
        "loop-cap programs with max 1/2/10/10000. Non-trivial when the deadline fired or a loop reached its cap; distinct by hash of "
        "(family of each run, what the scripts were doing at the deadline, run ordinal, VM-age bucket, cap value)")
REAL = ["src/runtime/runtime.cpp deadline test, scheduler loop", "src/operators/ops_generic.cpp while/for/waitUntil/sleep", "src/parser/*"]
STUB = ["system_clock (virtual clock: cost per instruction and per poll, idle jump capped at the deadline)", "logger (recording)"]
ASSUMPTIONS = ["each single operator call terminates (the statement's proviso)",
               "slack = cost of one instruction + 50 polls of the run's clock policy",
               "the limit is compared on the virtual clock; wall-clock is never consulted"]

NONTERM = ["while_sched", "while_true_unsched_nocap", "for_step0", "recursion", "spawn_chain", "waituntil_false", "all_asleep", "foreach_grow", "sleep_loop"]
TERM = ["markers", "short_loop", "sleep_short"]
CAP = ["cap_plain", "cap_empty_body", "cap_nested", "cap_error_body", "cap_exitwith"]


def program(rng, fam, base):
    """returns (sqf text, info)"""
    m = lambda i: base + i
    if fam == "while_sched":
        return ("t__ [%d]; [] spawn { t__ [%d]; _i = 0; while { true } do { _i = _i + 1; }; t__ [%d]; }; t__ [%d];" % (m(0), m(1), m(2), m(3)),
                {"never": [m(2)], "must": [m(0), m(1), m(3)]})
    if fam == "while_true_unsched_nocap":
        # max_loop = 0 disables the cap: only the deadline ends this
        return ("t__ [%d]; _i = 0; while { true } do { _i = _i + 1; }; t__ [%d];" % (m(0), m(1)), {"never": [m(1)], "must": [m(0)], "max_loop": 0})
    if fam == "for_step0":
        return ("t__ [%d]; for \"_i\" from 0 to 1 step 0 do { _a = _i; }; t__ [%d];" % (m(0), m(1)), {"never": [m(1)], "must": [m(0)]})
    if fam == "recursion":
        return ("t__ [%d]; _f = { _this call _f; }; _f call _f; t__ [%d];" % (m(0), m(1)), {"never": [m(1)], "must": [m(0)]})
    if fam == "spawn_chain":
        return ("t__ [%d]; fn%d = { t__ [%d]; sleep 0.001; [] spawn fn%d; }; [] spawn fn%d; t__ [%d];" % (m(0), base, m(1), base, base, m(2)),
                {"never": [], "must": [m(0), m(2)]})
    if fam == "waituntil_false":
        return ("t__ [%d]; [] spawn { t__ [%d]; waitUntil { false }; t__ [%d]; }; t__ [%d];" % (m(0), m(1), m(2), m(3)), {"never": [m(2)], "must": [m(0), m(1), m(3)]})
    if fam == "all_asleep":
        d = rng.choice([1, 10, 3600])
        return ("t__ [%d]; [] spawn { t__ [%d]; sleep %d; t__ [%d]; }; [] spawn { sleep %d; t__ [%d]; }; t__ [%d];" % (m(0), m(1), d, m(2), d * 2, m(3), m(4)),
                {"never": [m(2), m(3)], "must": [m(0), m(1), m(4)], "asleep": True})
    if fam == "foreach_grow":
        return ("t__ [%d]; _a = [1]; { _a pushBack _x; } forEach _a; t__ [%d];" % (m(0), m(1)), {"never": [m(1)], "must": [m(0)]})
    if fam == "sleep_loop":
        return ("t__ [%d]; [] spawn { while { true } do { sleep 0.01; }; t__ [%d]; }; t__ [%d];" % (m(0), m(1), m(2)), {"never": [m(1)], "must": [m(0), m(2)]})
    if fam == "markers":
        n = rng.randint(1, 6)
        return (" ".join("t__ [%d];" % m(i) for i in range(n)), {"must": [m(i) for i in range(n)], "terminating": True})
    if fam == "short_loop":
        n = rng.randint(1, 5)
        return ("t__ [%d]; for \"_i\" from 1 to %d do { t__ [%d]; }; t__ [%d];" % (m(0), n, m(1), m(2)), {"must": [m(0)] + [m(1)] * n + [m(2)], "terminating": True})
    if fam == "sleep_short":
        return ("t__ [%d]; [] spawn { t__ [%d]; sleep 0.001; t__ [%d]; }; t__ [%d];" % (m(0), m(1), m(2), m(3)), {"must_set": [m(0), m(1), m(2), m(3)], "terminating": True, "sleep_ms": 1})
    raise ValueError(fam)


def cap_program(rng, fam, base, cap):
    m = lambda i: base + i
    if fam == "cap_plain":
        return ("t__ [%d]; c = 0; b = 0; while { c = c + 1; true } do { b = b + 1; }; t__ [%d, [c, b]];" % (m(0), m(1)), {"report": m(1), "loops": 1})
    if fam == "cap_empty_body":
        return ("t__ [%d]; c = 0; while { c = c + 1; true } do { }; t__ [%d, [c, 0]];" % (m(0), m(1)), {"report": m(1), "loops": 1})
    if fam == "cap_nested":
        return ("t__ [%d]; c = 0; b = 0; d = 0; while { c = c + 1; true } do { b = b + 1; e = 0; while { true } do { e = e + 1; d = d + 1; }; }; t__ [%d, [c, b, d]];" % (m(0), m(1)),
                {"report": m(1), "loops": 2})
    if fam == "cap_error_body":
        return ("t__ [%d]; c = 0; b = 0; while { c = c + 1; true } do { b = b + 1; { fault__ 1; } except__ { 0 }; }; t__ [%d, [c, b]];" % (m(0), m(1)), {"report": m(1), "loops": 1})
    if fam == "cap_exitwith":
        return ("t__ [%d]; c = 0; b = 0; while { c = c + 1; true } do { b = b + 1; call { if (true) exitWith { 1 }; 2 }; }; t__ [%d, [c, b]];" % (m(0), m(1)), {"report": m(1), "loops": 1})
    raise ValueError(fam)


def generate(rng, tier, run):
    kind = "cap" if rng.random() < 0.25 else "deadline"
    if kind == "cap":
        cap = rng.choice([1, 2, 10, 10, 10000])
        fam = rng.choice(CAP if cap < 10000 else ["cap_plain", "cap_empty_body", "cap_exitwith"])
        text, info = cap_program(rng, fam, 100, cap)
        case = {"kind": "cap", "cap": cap, "fam": fam, "text": text, "info": info,
                "clock": {"per_instr_ns": rng.choice([0, 1000]), "per_poll_ns": 100, "idle_jump": True}}
        case["plan"] = plan_of(case)
        return case
    L = rng.choice([5, 20, 50, 100, 500])
    nruns = rng.randint(1, 4)
    runs = []
    for i in range(nruns):
        last = i == nruns - 1
        r = rng.random()
        if (last and nruns > 1 and r < 0.7) or r < 0.3:
            fam = rng.choice(TERM)
        else:
            fam = rng.choice(NONTERM)
        text, info = program(rng, fam, (i + 1) * 100)
        runs.append({"fam": fam, "text": text, "info": info, "advance_ms": rng.choice([0, 0, 1, L // 2, L, L * 3, 100000]) if i else rng.choice([0, 0, L * 2, 100000])})
    per_instr = rng.choice([1000, 100000, 1000000, 7000000]) if L <= 50 else rng.choice([100000, 1000000, 7000000])
    case = {"kind": "deadline", "L": L, "runs": runs,
            "clock": {"per_instr_ns": per_instr, "per_poll_ns": rng.choice([100, 10000]), "idle_jump": True}}
    case["plan"] = plan_of(case)
    return case


def plan_of(case):
    if case["kind"] == "cap":
        steps = [{"do": "vm_new", "vm": "a", "conf": {"max_loop": case["cap"], "print_work": False}},
                 {"do": "load", "vm": "a", "text": case["text"], "name": "cap.sqf"},
                 {"do": "action", "vm": "a", "name": "start"}, {"do": "state", "vm": "a"}]
        return {"prop": PROP, "steps": steps, "clock": case["clock"],
                "limits": {"max_instr": 700000, "max_events": 5000, "max_visits": 100000, "watchdog_s": 60}, "observe": {"visits": False, "slices": False}}
    steps = [{"do": "vm_new", "vm": "a", "conf": {"max_runtime_ms": case["L"], "print_work": False}}]
    for i, r in enumerate(case["runs"]):
        if r["advance_ms"]:
            steps.append({"do": "clock_advance", "ns": r["advance_ms"] * 1000000})
        steps.append({"do": "conf", "vm": "a", "max_loop": r["info"].get("max_loop", 10000)})
        steps.append({"do": "load", "vm": "a", "text": r["text"], "name": "run%d.sqf" % i})
        steps.append({"do": "action", "vm": "a", "name": "start"})
        steps.append({"do": "state", "vm": "a"})
        steps.append({"do": "action_if_failed", "vm": "a", "name": "abort"})
    return {"prop": PROP, "steps": steps, "clock": case["clock"],
            "limits": {"max_instr": 300000, "max_events": 200000, "max_visits": 600000, "watchdog_s": 60}, "observe": {"visits": False, "slices": False}}


def judge(case, hs):
    h = hs[0]
    if "crash" in h:
        return [Violation("crash", "crash:" + crash_site(h["crash"]), h["crash"].get("stderr", "")[-2000:])]
    V = []
    ev = h["events"]
    if case["kind"] == "cap":
        if h.get("truncated"):
            return [Violation("D5", "loop-cap-not-enforced:%s" % case["fam"], "unscheduled while loop (max %d) was still running after the step budget" % case["cap"])]
        cap = case["cap"]
        rep = None
        for e in ev:
            if e[1] == "t":
                k, v = pc.split_marker(e[4])
                if k == case["info"]["report"]:
                    rep = v
        errs = [e for e in ev if e[1] == "log" and e[3] <= 1 and "FAULTOP" not in e[8]]
        if errs:
            V.append(Violation("D5", "cap-program-error:%s" % case["fam"], "unexpected error: %s" % errs[0][8][:200]))
        if rep is None:
            V.append(Violation("D5", "loop-never-left:%s" % case["fam"], "the statement after the capped loop never ran"))
        else:
            from ..sqfval import parse
            vals = parse(rep)
            c, b = vals[0], vals[1]
            if b > cap or c > cap + 1:
                V.append(Violation("D5", "loop-cap-exceeded:%s" % case["fam"], "max=%d but the loop evaluated its condition %d times and ran its body %d times" % (cap, c, b)))
            if case["fam"] == "cap_nested" and len(vals) > 2 and vals[2] > cap * cap:
                V.append(Violation("D5", "loop-cap-exceeded:nested-inner", "max=%d: inner loops ran %d iterations in total" % (cap, vals[2])))
        return V
    # ---- deadline runs
    if h.get("truncated"):
        return [Violation("D1", "run-not-ended:%s" % fam_at_truncation(case, ev), "a run with max runtime %d ms was still going after the step budget (%s)" % (case["L"], h["truncated"]))]
    L_ns = case["L"] * 1000000
    slack = case["clock"]["per_instr_ns"] + 50 * case["clock"]["per_poll_ns"] + 2000
    segs = []
    cur = None
    for e in ev:
        if e[1] == "load":
            cur = []
            segs.append(cur)
        if cur is not None:
            cur.append(e)
    for i, r in enumerate(case["runs"]):
        if i >= len(segs):
            V.append(Violation("D1", "run-missing", "run %d did not take place" % i))
            break
        seg = segs[i]
        begin = [e for e in seg if e[1] == "act_begin" and e[4] == "start"]
        end = [e for e in seg if e[1] == "act" and e[4] == "start"]
        if not begin or not end:
            V.append(Violation("D1", "run-missing", "run %d has no start action" % i))
            continue
        t0, t1 = begin[0][8], end[0][11]
        dur = t1 - t0
        cut = [e for e in seg if e[1] == "log" and e[4] == 60002]
        marks = [pc.split_marker(e[4])[0] for e in seg if e[1] == "t"]
        info = r["info"]
        fam = r["fam"]
        age = "old-vm" if (t0 - 1600000000 * 10**9) > L_ns else "young-vm"
        st = [e for e in seg if e[1] == "state"]
        if dur > L_ns + slack:
            V.append(Violation("D2", "deadline-overshoot:%s" % fam, "run %d (%s) took %.3f ms of virtual time with a limit of %d ms (slack %.3f ms)" % (i, fam, dur / 1e6, case["L"], slack / 1e6)))
        roomy = 250 * case["clock"]["per_instr_ns"] + 600 * case["clock"]["per_poll_ns"] + info.get("sleep_ms", 0) * 1000000 < L_ns - slack
        if info.get("terminating"):
            # a terminating run that certainly needs less than the limit (static bound: < 250 instructions) must not be cut
            if roomy:
                exp = info.get("must")
                ok = (marks == exp) if exp is not None else (sorted(marks) == sorted(info["must_set"]))
                if cut or not ok:
                    V.append(Violation("D4", "short-run-cut:%s:%s" % (fam, age), "run %d (%s, %s) needs far less than the limit of %d ms but %s; markers %r, result %r" % (
                        i, fam, age, case["L"], "was cut by the limit" if cut else "did not run completely", marks[:8], end[0][5])))
        else:
            for k in info.get("never", []):
                if k in marks:
                    V.append(Violation("D3", "ran-past-nontermination:%s" % fam, "marker %d after a non-terminating construct executed" % k))
            if roomy:
                for k in info.get("must", []):
                    if k not in marks:
                        V.append(Violation("D4", "start-of-run-missing:%s:%s" % (fam, age), "run %d (%s, %s): marker %d never executed although the run had %d ms; markers %r, result %r" % (i, fam, age, k, case["L"], marks[:6], end[0][5])))
                        break
            if not cut:
                V.append(Violation("D3", "not-reported-as-aborted:%s" % fam, "run %d (%s) ended without a MaximumRuntimeReached diagnostic (result %r)" % (i, fam, end[0][5])))
            if st and (st[0][4] != 0 or st[0][3] != 0):
                V.append(Violation("D3", "vm-not-empty-after-limit:%s" % fam, "run %d (%s): after the limit hit the VM has state %d and %d contexts" % (i, fam, st[0][3], st[0][4])))
    out = {}
    for v in V:
        out.setdefault(v.key, v)
    return list(out.values())


def fam_at_truncation(case, ev):
    n = sum(1 for e in ev if e[1] == "load")
    if 0 < n <= len(case["runs"]):
        return case["runs"][n - 1]["fam"]
    return "?"


def signature(case, hs):
    h = hs[0]
    if "crash" in h:
        return None
    if case["kind"] == "cap":
        return hashlib.sha256(repr(("cap", case["fam"], case["cap"], case["clock"]["per_instr_ns"])).encode()).hexdigest()[:16]
    fired = sum(1 for e in h["events"] if e[1] == "log" and e[4] == 60002)
    if not fired:
        return None
    t = 1600000000 * 10**9
    sig = []
    for r in case["runs"]:
        sig.append((r["fam"], min(r["advance_ms"], case["L"] * 4) // max(1, case["L"])))
    return hashlib.sha256(repr((sig, case["L"], case["clock"])).encode()).hexdigest()[:16]


def stats(case, hs):
    h = hs[0]
    if "crash" in h:
        return {"crashes": 1}
    c = h.get("counters", {})
    fired = sum(1 for e in h["events"] if e[1] == "log" and e[4] == 60002)
    out = {"instr": c.get("instr", 0), "sim_time_s": (c.get("clock_end_ns", 0) - 1600000000 * 10**9) / 1e9,
           "faults_fired": {"deadline": fired, "clock_advance_between_runs": sum(1 for e in h["events"] if e[1] == "clock")},
           "probes": dict(c.get("probes", {}))}
    if case["kind"] == "cap":
        out["cap_runs"] = 1
    else:
        out["families"] = {}
        for r in case["runs"]:
            out["families"][r["fam"]] = out["families"].get(r["fam"], 0) + 1
    return out


def sample_view(case):
    if case["kind"] == "cap":
        return {"kind": "cap", "max": case["cap"], "sqf": case["text"]}
    return {"kind": "deadline", "limit_ms": case["L"], "clock": case["clock"], "runs": [{"advance_ms": r["advance_ms"], "sqf": r["text"]} for r in case["runs"]]}


def shrink_candidates(case):
    if case["kind"] != "deadline":
        return
    if len(case["runs"]) > 1:
        for i in range(len(case["runs"])):
            c = copy.deepcopy(case)
            del c["runs"][i]
            c["plan"] = plan_of(c)
            yield c
    for i, r in enumerate(case["runs"]):
        if r["advance_ms"]:
            c = copy.deepcopy(case)
            c["runs"][i]["advance_ms"] = 0
            c["plan"] = plan_of(c)
            yield c
