"""C18 — C API contract: truthful return codes, complete logging with the right cookies, reusable instances.

Simulated run: a generated history (<= 12 calls, thorough <= 25) over 1..3 instances of the real exported
functions (sqfvm_create_instance*, sqfvm_load_config, sqfvm_call, sqfvm_status, sqfvm_destroy_instance) with
inputs from classes whose outcome is known by construction; the virtual clock advances between calls; every
instance and every call carries unique cookies."""
import copy
import hashlib
import base64

from ..core import Violation, crash_site
from .. import progcheck as pc

PROP = "C18"
LEVEL = "exploration"
RUNS = {"quick": 9000, "thorough": 300000}
TIME_CAP = {"quick": 150, "thorough": 1500}
RULE = ("histories of API calls over 1-3 instances; inputs: clean, preprocess error, parse error, runtime error (early / last statement / "
        "iteration behaviour / spawned script / main script while a spawned one is pending), non-terminating (cut by the limit), sleepers, global set/get, config load/get, every type "
        "byte, null and bogus handles, malformed bytes; non-trivial when >= 2 calls hit one instance and a predecessor was not clean; "
        "distinct by hash of the sequence of (instance, input class, return code)")
REAL = ["src/export/sqfvm.cpp (exported functions called directly)", "src/runtime", "src/parser/*", "src/operators/*", "src/fileio/default.cpp"]
STUB = ["system_clock (virtual)", "log callback (recording, with cookies)"]
ASSUMPTIONS = ["calls on destroyed handles are not generated: the API cannot tell a dangling pointer from a live one by design",
               "the return code of exit__ inside a call is not judged (the header does not fix it)",
               "sqfvm_load_config has no call_data parameter: only user_data is checked for its diagnostics"]

CLASSES = ["clean", "clean", "set", "get", "pp_error", "parse_error", "rt_error_early", "rt_error_last", "rt_error_behaviour", "rt_error_spawned", "rt_error_pending",
           "nonterminating", "asleep_past_limit", "asleep_past_limit", "sleepers", "cfg_get", "preprocess_only", "parse_only", "bad_type", "null_handle", "bogus_handle", "malformed", "status", "exit"]


def gen_call(rng, k, state, inst):
    """returns dict describing one sqfvm_call / status; k = marker base"""
    cls = rng.choice(CLASSES)
    c = {"cls": cls, "inst": inst, "k": k, "type": "s", "handle": "valid", "expect": None, "markers": None}
    if cls == "clean":
        n = rng.randint(1, 4)
        c["text"] = " ".join("t__ [%d];" % (k + i) for i in range(n)) + " %d" % k
        c["expect"] = 0
        c["markers"] = [[k + i, None] for i in range(n)]
    elif cls == "set":
        v = rng.randint(1, 99)
        name = "g%d" % rng.randint(1, 3)
        c["text"] = "%s = %d; t__ [%d];" % (name, v, k)
        c["expect"] = 0
        c["markers"] = [[k, None]]
        c["set"] = (name, v)
    elif cls == "get":
        name = "g%d" % rng.randint(1, 3)
        c["text"] = "t__ [%d, %s];" % (k, name)
        c["expect"] = 0
        c["get"] = name
    elif cls == "pp_error":
        c["text"] = rng.choice(["#else\nt__ [%d];" % k, "t__ [%d];\n#include \"nope_%d.hpp\"\n" % (k, k), "#endif\n1"])
        c["expect"] = -2
        c["markers"] = []
    elif cls == "parse_error":
        c["text"] = rng.choice(["t__ [%d]; 1 +;" % k, "t__ [%d]; [1, " % k, "t__ [%d]; { 1 " % k, ") t__ [%d]" % k])
        c["expect"] = -3
        c["markers"] = []
    elif cls == "rt_error_early":
        c["text"] = "t__ [%d]; fault__ 1; t__ [%d];" % (k, k + 1)
        c["expect"] = -6
        c["markers"] = [[k, None]]
    elif cls == "rt_error_last":
        c["text"] = "t__ [%d]; fault__ 1" % k
        c["expect"] = -6
        c["markers"] = [[k, None]]
    elif cls == "rt_error_behaviour":
        c["text"] = "t__ [%d]; {1} count [1]" % k
        c["expect"] = -6
        c["markers"] = [[k, None]]
    elif cls == "rt_error_spawned":
        c["text"] = "t__ [%d]; [] spawn { t__ [%d]; fault__ 2; t__ [%d]; }; t__ [%d];" % (k, k + 1, k + 2, k + 3)
        c["expect"] = -6
        c["markers_set"] = [k, k + 1, k + 3]
        c["never"] = [k + 2]
    elif cls == "rt_error_pending":
        # the main script fails while a script it spawned is still pending (not started yet, or asleep): the call ends -6 and the
        # pending script belongs to that call - it must never run, in particular not inside a later call
        body = rng.choice(["t__ [%d];" % (k + 1), "sleep 0.001; t__ [%d];" % (k + 1), "sleep 0.01; t__ [%d];" % (k + 1), "uiSleep 0.001; t__ [%d];" % (k + 1)])
        c["text"] = "t__ [%d]; [] spawn { %s }; fault__ 1; t__ [%d];" % (k, body, k + 2)
        c["expect"] = -6
        c["markers"] = [[k, None]]
        c["never"] = [k + 1, k + 2]
    elif cls == "nonterminating":
        c["text"] = rng.choice(["t__ [%d]; [] spawn { while { true } do { _a = 1; }; }; t__ [%d];" % (k, k + 1),
                                "t__ [%d]; t__ [%d]; for \"_i\" from 0 to 1 step 0 do { _a = 1; }; t__ [%d];" % (k, k + 1, k + 2)])
        c["expect"] = -6
        c["needs_limit"] = True
        c["never"] = [k + 2]
    elif cls == "asleep_past_limit":
        # the main script ends, a spawned one sleeps far beyond the budget: the run is cut while everybody is asleep
        c["text"] = "t__ [%d]; [] spawn { sleep %d; t__ [%d]; }; t__ [%d];" % (k, rng.choice([5, 30, 3600]), k + 1, k + 2)
        c["expect"] = -6
        c["needs_limit"] = True
        c["markers_set"] = [k, k + 2]
        c["never"] = [k + 1]
    elif cls == "sleepers":
        c["text"] = "t__ [%d]; [] spawn { sleep %s; t__ [%d]; }; t__ [%d];" % (k, rng.choice(["0.001", "0.01"]), k + 1, k + 2)
        c["expect"] = 0
        c["markers_set"] = [k, k + 1, k + 2]
        c["sleep"] = True
    elif cls == "cfg_get":
        c["text"] = "t__ [%d, getNumber (configFile >> \"A%d\" >> \"v\")];" % (k, rng.randint(1, 2))
        c["expect"] = None
        c["cfg_get"] = True
    elif cls == "preprocess_only":
        c["type"] = "p"
        c["text"] = "#define X %d\nt__ [X];" % k
        c["expect"] = 0
        c["markers"] = []
    elif cls == "parse_only":
        c["type"] = "1"
        c["text"] = "t__ [%d];" % k
        c["expect"] = 0
        c["markers"] = []
    elif cls == "bad_type":
        c["type"] = rng.choice(["x", "S", "0", "c", "\u0001"])
        c["text"] = "t__ [%d];" % k
        c["expect"] = -5
        c["markers"] = []
    elif cls == "null_handle":
        c["handle"] = "null"
        c["text"] = "t__ [%d];" % k
        c["expect"] = -1
        c["markers"] = []
    elif cls == "bogus_handle":
        c["handle"] = "bogus"
        c["text"] = "t__ [%d];" % k
        c["expect"] = -1
        c["markers"] = []
    elif cls == "malformed":
        n = rng.randint(0, 40)
        raw = bytes(rng.choice([0, 34, 35, 39, 40, 41, 47, 42, 59, 91, 92, 123, 125, 10, 65, 255, 128, 9]) for _ in range(n))
        c["text_b64"] = base64.b64encode(raw).decode()
        c["expect"] = None
    elif cls == "status":
        c["fn"] = "status"
        c["handle"] = rng.choice(["valid", "valid", "null", "bogus"])
        c["expect"] = 0 if c["handle"] == "valid" else -1
    elif cls == "exit":
        c["text"] = "t__ [%d]; exit__; t__ [%d];" % (k, k + 1)
        c["expect"] = None
    return c


def generate(rng, tier, run):
    if rng.random() < 0.003:
        # type 'a' (assembly text) is exercised in short dedicated histories with a short watchdog: see KNOWN_FINDINGS.txt
        inst = {"name": "i0", "kind": "full", "user": 7000, "limit_s": 0.2}
        c = gen_call(rng, 100, None, "i0")
        c.update({"cls": "assembly", "type": "a", "handle": "valid", "expect": None, "markers": None, "cookie": 9000, "advance_ms": 0,
                  "text": rng.choice(["PUSH 1; PUSH 2; CALLBINARY +; ASSIGNTO _a; ENDSTATEMENT; GETVARIABLE _a; CALLUNARY str;",
                                      "PUSH 1;", "ENDSTATEMENT;", "CALLNULAR time;", "PUSH \"x\"; CALLUNARY diag_log;", "MAKEARRAY 0;", "PUSH", ""])})
        for k in ("markers_set", "never", "get", "set", "text_b64", "fn", "needs_limit", "cfg_get", "sleep"):
            c.pop(k, None)
        case = {"insts": [inst], "calls": [c], "clock": {"per_instr_ns": 1000, "per_poll_ns": 100, "idle_jump": True}, "watchdog_s": 8}
        case["plan"] = plan_of(case)
        return case
    ncalls = rng.randint(2, 12 if tier == "quick" else 25)
    ninst = rng.randint(1, 3)
    insts = []
    for i in range(ninst):
        insts.append({"name": "i%d" % i, "kind": rng.choice(["full", "full", "basic"]), "user": 7000 + i,
                      "limit_s": rng.choice([0.05, 0.2, 0.5])})
    calls = []
    k = 100
    for j in range(ncalls):
        inst = rng.choice(insts)["name"]
        r = rng.random()
        if r < 0.1:
            v = rng.randint(1, 9)
            n = rng.randint(1, 2)
            calls.append({"cls": "load_config", "inst": inst, "text": "class A%d { v = %d; };" % (n, v), "cfg": (n, v), "expect": 0})
        elif r < 0.14:
            calls.append({"cls": "load_config_bad", "inst": inst, "text": rng.choice(["class A { v = ; };", "#else\nclass B {};", "class C {"]), "expect": None})
        else:
            calls.append(gen_call(rng, k, None, inst))
            k += 10
        calls[-1]["cookie"] = 9000 + j
        calls[-1]["advance_ms"] = rng.choice([0, 0, 1, 100, 1000, 100000])
    case = {"insts": insts, "calls": calls, "clock": {"per_instr_ns": rng.choice([1000, 100000]), "per_poll_ns": 100, "idle_jump": True}}
    case["plan"] = plan_of(case)
    return case


def plan_of(case):
    steps = []
    for i in case["insts"]:
        steps.append({"do": "api_create", "inst": i["name"], "kind": i["kind"], "user": i["user"], "max_runtime_s": i["limit_s"]})
    for c in case["calls"]:
        if c.get("advance_ms"):
            steps.append({"do": "clock_advance", "ns": c["advance_ms"] * 1000000})
        if c["cls"].startswith("load_config"):
            steps.append({"do": "api_load_config", "inst": c["inst"], "text": c["text"]})
        elif c.get("fn") == "status":
            steps.append({"do": "api_status", "inst": c["inst"], "handle": c["handle"]})
        else:
            st = {"do": "api_call", "inst": c["inst"], "type": c["type"], "cookie": c["cookie"], "handle": c["handle"]}
            if "text_b64" in c:
                st["text_b64"] = c["text_b64"]
            else:
                st["text"] = c["text"]
            steps.append(st)
        steps.append({"do": "api_status", "inst": c["inst"]})
    for i in case["insts"]:
        steps.append({"do": "api_destroy", "inst": i["name"]})
    return {"prop": PROP, "steps": steps, "clock": case["clock"],
            "limits": {"max_instr": 3000000, "max_events": 200000, "max_visits": 3000000, "watchdog_s": case.get("watchdog_s", 60)},
            "observe": {"visits": False, "slices": False}}


def judge(case, hs):
    h = hs[0]
    if "crash" in h:
        return [Violation("crash", "crash:" + crash_site(h["crash"]), h["crash"].get("stderr", "")[-2500:])]
    if h.get("truncated"):
        return [Violation("liveness", "not-terminated:" + str(h["truncated"]), "the API history did not end within the step budget")]
    V = []
    ev = h["events"]
    users = {i["name"]: i["user"] for i in case["insts"]}
    limits = {i["name"]: i["limit_s"] for i in case["insts"]}
    # split events per call
    idx = 0
    api_events = [e for e in ev if e[1] in ("api", "api_begin")]
    # walk through the plan's calls in order, consuming events
    pos = 0
    globals_model = {n: {} for n in users}
    cfg_model = {n: {} for n in users}
    pred_unclean = {n: False for n in users}
    evs = ev
    i = 0
    n_ev = len(evs)

    def next_api(name, start):
        j = start
        while j < n_ev:
            e = evs[j]
            if e[1] == "api" and e[2] == name:
                return j
            j += 1
        return None

    cursor = 0
    for ci, c in enumerate(case["calls"]):
        inst = c["inst"]
        if c["cls"].startswith("load_config"):
            j = next_api("load_config", cursor)
            if j is None:
                V.append(Violation("history", "call-missing", "load_config #%d has no result" % ci))
                break
            e = evs[j]
            window = evs[cursor:j]
            ret = e[4]
            if e[7]:
                V.append(Violation("crash", "exception:load_config", "C++ exception escaped sqfvm_load_config: %s" % e[7]))
            if c["expect"] is not None and ret != c["expect"]:
                V.append(Violation("code", "code:load_config:%s->%d" % (c["expect"], ret), "load_config(%r) returned %d, expected %d" % (c["text"], ret, c["expect"])))
            if ret == 0 and "cfg" in c:
                cfg_model[inst][c["cfg"][0]] = c["cfg"][1]
            for w in window:
                if w[1] == "cb" and w[2] != users[inst]:
                    V.append(Violation("cookies", "cookies:user-data:load_config", "diagnostic of instance %s delivered with user data %d" % (inst, w[2])))
            cursor = j + 1
        elif c.get("fn") == "status":
            j = next_api("status", cursor)
            e = evs[j]
            if c["expect"] is not None and e[4] != c["expect"]:
                V.append(Violation("code", "code:status:%s->%d" % (c["expect"], e[4]), "sqfvm_status(%s handle) returned %d" % (c["handle"], e[4])))
            cursor = j + 1
        else:
            j = next_api("call", cursor)
            if j is None:
                V.append(Violation("history", "call-missing", "call #%d has no result" % ci))
                break
            e = evs[j]
            window = evs[cursor:j]
            ret = e[4]
            cls = c["cls"]
            if e[7]:
                V.append(Violation("crash", "exception:call:" + cls, "C++ exception escaped sqfvm_call (%s): %s" % (cls, e[7])))
            marks = [pc.split_marker(w[4]) for w in window if w[1] == "t"]
            mk = [m[0] for m in marks]
            age = "after-unclean" if pred_unclean.get(inst) else "after-clean"
            exp = c["expect"]
            if exp is not None and ret != exp:
                V.append(Violation("code", "code:%s:%s->%d:%s" % (cls, exp, ret, age if exp == 0 else "any"),
                                   "sqfvm_call #%d (%s, %s) returned %d, expected %d; input %r" % (ci, cls, age, ret, exp, c.get("text", "<bytes>")[:120])))
            if c.get("markers") is not None and c["handle"] == "valid" and (exp == ret):
                if mk != [m[0] for m in c["markers"]]:
                    V.append(Violation("trace", "trace:%s:%s" % (cls, age), "call #%d (%s, %s): markers %r, expected %r" % (ci, cls, age, mk, [m[0] for m in c["markers"]])))
            if c.get("markers_set") is not None and exp == ret:
                if sorted(mk) != sorted(c["markers_set"]):
                    V.append(Violation("trace", "trace:%s:%s" % (cls, age), "call #%d (%s, %s): markers %r, expected the set %r" % (ci, cls, age, mk, c["markers_set"])))
            for kk in c.get("never", []):
                if kk in mk:
                    V.append(Violation("trace", "trace:ran-past:%s" % cls, "call #%d (%s): marker %d executed" % (ci, cls, kk)))
            if "get" in c and ret == 0:
                want = globals_model[inst].get(c["get"])
                got = marks[0][1] if marks else None
                wants = "nil" if want is None else ("%g" % want)
                if got != wants:
                    V.append(Violation("persist", "persist:global:%s" % ("lost" if want is not None else "leaked"),
                                       "call #%d on %s reads %s = %s, the model of that instance says %s" % (ci, inst, c["get"], got, wants)))
            if "set" in c and ret == 0:
                globals_model[inst][c["set"][0]] = c["set"][1]
            # cookies
            if c["handle"] == "valid":
                for w in window:
                    if w[1] == "cb":
                        if w[2] != users[inst]:
                            V.append(Violation("cookies", "cookies:user-data", "call #%d on %s: diagnostic delivered with user data %d instead of %d" % (ci, inst, w[2], users[inst])))
                            break
                        if w[3] != c["cookie"]:
                            V.append(Violation("cookies", "cookies:call-data", "call #%d: diagnostic delivered with call data %d instead of %d: %s" % (ci, w[3], c["cookie"], w[5][:100])))
                            break
                # a failed execution must have told why
                if ret in (-2, -3, -6) and cls != "exit" and not any(w[1] == "cb" and w[4] in (0, 1) for w in window):
                    V.append(Violation("logging", "logging:no-diagnostic:%d" % ret, "call #%d (%s) returned %d without any error-level diagnostic reaching the callback" % (ci, cls, ret)))
                obs = e[8]
                if obs is not None:
                    if obs["contexts"] != 0:
                        V.append(Violation("idle", "idle:contexts-left:%s" % cls, "call #%d (%s) returned %d with %d scripts still pending" % (ci, cls, ret, obs["contexts"])))
                    if obs["runtime_error"]:
                        V.append(Violation("idle", "idle:error-flag:%s" % cls, "call #%d (%s) returned %d with the runtime error flag set" % (ci, cls, ret)))
                pred_unclean[inst] = pred_unclean[inst] or (ret != 0) or cls in ("exit", "malformed", "sleepers")
            cursor = j + 1
        # status right after (always generated)
        j = next_api("status", cursor)
        if j is not None:
            e = evs[j]
            if e[4] != 0 and c.get("handle", "valid") == "valid":
                V.append(Violation("idle", "idle:status:%d:%s" % (e[4], c["cls"]), "after call #%d (%s) sqfvm_status is %d, expected 0 (idle)" % (ci, c["cls"], e[4])))
            cursor = j + 1
    out = {}
    for v in V:
        out.setdefault(v.key, v)
    return list(out.values())


def signature(case, hs):
    h = hs[0]
    if "crash" in h:
        return None
    rets = [e[4] for e in h["events"] if e[1] == "api" and e[2] in ("call", "load_config")]
    per_inst = {}
    nontriv = False
    seq = []
    ri = 0
    for c in case["calls"]:
        if c.get("fn") == "status":
            continue
        r = rets[ri] if ri < len(rets) else None
        ri += 1
        if per_inst.get(c["inst"], {}).get("unclean") and c.get("handle", "valid") == "valid":
            nontriv = True
        d = per_inst.setdefault(c["inst"], {})
        if r not in (0, None):
            d["unclean"] = True
        seq.append((c["inst"], c["cls"], r))
    if not nontriv:
        return None
    return hashlib.sha256(repr(seq).encode()).hexdigest()[:16]


def stats(case, hs):
    h = hs[0]
    if "crash" in h:
        return {"crashes": 1}
    c = h.get("counters", {})
    classes = {}
    for x in case["calls"]:
        classes[x["cls"]] = classes.get(x["cls"], 0) + 1
    return {"instr": c.get("instr", 0), "api_calls": len(case["calls"]), "instances": len(case["insts"]), "input_classes": classes,
            "sim_time_s": (c.get("clock_end_ns", 0) - 1600000000 * 10**9) / 1e9,
            "faults_fired": {"clock_advance_between_calls": sum(1 for x in case["calls"] if x.get("advance_ms")),
                             "deadline": sum(1 for e in h["events"] if e[1] == "cb" and "runtime of" in e[5])}}


def sample_view(case):
    return {"instances": case["insts"], "calls": [{k: v for k, v in c.items() if k in ("cls", "inst", "text", "type", "handle", "expect", "advance_ms")} for c in case["calls"]]}


def shrink_candidates(case):
    for i in range(len(case["calls"]) - 1, -1, -1):
        c = copy.deepcopy(case)
        del c["calls"][i]
        c["plan"] = plan_of(c)
        yield c
    if len(case["insts"]) > 1:
        for i in range(len(case["insts"]) - 1, -1, -1):
            name = case["insts"][i]["name"]
            if any(c["inst"] == name for c in case["calls"]):
                continue
            c = copy.deepcopy(case)
            del c["insts"][i]
            c["plan"] = plan_of(c)
            yield c
    for i, cc in enumerate(case["calls"]):
        if cc.get("advance_ms"):
            c = copy.deepcopy(case)
            c["calls"][i]["advance_ms"] = 0
            c["plan"] = plan_of(c)
            yield c
