"""C19 — execution control (start/step/stop/abort) follows its state machine, thread-safe.

Two logical threads under the baton: an executor issuing blocking actions and a controller issuing a generated
action sequence; at every yield point (instruction boundary, scheduler visit, the sites inside runtime::execute
after each compare-exchange, before each release, between test and store of stop/abort) the seeded schedule decides
who continues. One-thread action sequences are the degenerate schedule. A small state-machine model judges
what the statement fixes (S1..S7)."""
import copy
import hashlib

from ..core import Violation, crash_site
from .. import progcheck as pc

PROP = "C19"
LEVEL = "exploration"
RUNS = {"quick": 6000, "thorough": 300000}
TIME_CAP = {"quick": 150, "thorough": 1500}
RULE = ("action sequences (<= 8, thorough <= 12) over start/stop/abort/assembly_step/line_step/leave_scope from every start situation "
        "(nothing loaded, 1-2 scripts loaded, finished, failed with error, halted by a step), issued by one thread or by controller and "
        "executor threads interleaved by a seeded baton schedule; non-trivial when a controller action landed while the executor was "
        "inside execute, or the sequence visited >= 3 states; distinct by hash of (state/action/result sequence, yield sites at which "
        "thread switches happened)")
REAL = ["src/runtime/runtime.cpp runtime::execute, execute_do", "src/runtime/runtime.h state fields"]
STUB = ["thread scheduling (baton: one logical thread runs, the seed picks who continues at each yield point)", "system_clock (virtual)", "logger"]
ASSUMPTIONS = ["interleavings are explored at yield-point granularity (instruction boundaries and the guarded sites in runtime::execute); torn or "
               "reordered accesses to the plain state fields are not explored",
               "evaluate_expression's busy-wait hand-shake is excluded",
               "return values the documentation leaves open (start with nothing loaded) are recorded, not judged"]

ACTIONS = ["start", "stop", "abort", "assembly_step", "line_step", "leave_scope"]
BLOCKING = ("start", "assembly_step", "line_step", "leave_scope")
RES_NAME = {-2: "invalid", -1: "empty", 0: "ok", 1: "action_error", 2: "runtime_error", -99: "exception"}


def script(rng, sid, kind):
    n = rng.randint(1, 6)
    lines = ["t__ [%d, 0];" % sid, "_a = 0;"]
    if kind == "loop":
        lines += ['for "_i" from 1 to %d do {' % n, "  _a = _a + 1;", "  t__ [%d, 1, _i];" % sid, "};"]
    elif kind == "nested":
        lines += ["_b = call {", "  _a = _a + 1;", "  t__ [%d, 1];" % sid, "  call {", "    t__ [%d, 2];" % sid, "    _a + 1", "  }", "};", "t__ [%d, 3, _b];" % sid]
    elif kind == "error":
        lines += ["t__ [%d, 1];" % sid, "fault__ %d;" % sid, "t__ [%d, 2];" % sid]
    elif kind == "long":
        lines += ["while { _a < %d } do {" % rng.choice([20, 60, 200]), "  _a = _a + 1;", "};"]
    elif kind == "spawner":
        lines += ["[] spawn {", "  t__ [%d, 5];" % sid, "  _c = 0;", "  while { _c < 30 } do { _c = _c + 1; };", "  t__ [%d, 6];" % sid, "};"]
    lines.append("t__ [%d, 9];" % sid)
    return "\n".join(lines)


def generate(rng, tier, run):
    maxlen = 8 if tier == "quick" else 12
    situation = rng.choice(["nothing", "loaded", "loaded", "loaded2", "finished", "failed", "stepped", "stepped"])
    steps = [{"do": "vm_new", "vm": "a", "conf": {"print_work": False}}]
    kinds = ["loop", "nested", "long", "spawner", "loop", "error"]
    if situation in ("loaded", "stepped"):
        steps.append({"do": "load", "vm": "a", "text": script(rng, 1, rng.choice(kinds)), "name": "s1.sqf"})
    elif situation == "loaded2":
        steps.append({"do": "load", "vm": "a", "text": script(rng, 1, rng.choice(kinds)), "name": "s1.sqf"})
        steps.append({"do": "load", "vm": "a", "text": script(rng, 2, rng.choice(kinds)), "name": "s2.sqf"})
    elif situation == "finished":
        steps.append({"do": "load", "vm": "a", "text": script(rng, 1, "loop"), "name": "s1.sqf"})
        steps.append({"do": "action", "vm": "a", "name": "start"})
    elif situation == "failed":
        steps.append({"do": "load", "vm": "a", "text": script(rng, 1, "error"), "name": "s1.sqf"})
        steps.append({"do": "action", "vm": "a", "name": "start"})
    if situation == "stepped":
        # any instruction boundary may be the position further actions start from (e.g. right behind the last
        # instruction of an inner block)
        for _ in range(rng.randint(1, 16)):
            steps.append({"do": "action", "vm": "a", "name": "assembly_step"})
    threaded = rng.random() < 0.6
    if threaded:
        ex = [{"do": "action", "vm": "a", "name": rng.choice(["start", "start", "start", "line_step", "leave_scope", "assembly_step"])}
              for _ in range(rng.randint(1, 3))]
        co = [{"do": "action", "vm": "a", "name": rng.choice(ACTIONS)} for _ in range(rng.randint(1, maxlen - 2))]
        # schedule: mostly run one thread for a while, then switch
        yields = []
        for _ in range(rng.randint(5, 120)):
            yields.append(rng.choice([-1, -1, -1, -1, 0, 1]))
        steps.append({"do": "par", "threads": [ex, co], "yields": yields, "max_yields": 400000})
    else:
        n = rng.randint(1, maxlen)
        while n > 0:
            a = rng.choice(ACTIONS)
            rep = rng.randint(1, 4) if a == "assembly_step" else 1     # runs of single steps move the position
            for _ in range(min(rep, n)):
                steps.append({"do": "action", "vm": "a", "name": a})
            n -= rep
    # S7: the VM must still accept work
    steps.append({"do": "state", "vm": "a"})
    # epilogue: discard or drain whatever is left (abort is refused while the state is still 'empty' with scripts that
    # were loaded but never started, so run them, then abort what a failing script left behind), then the VM must work
    steps.append({"do": "action", "vm": "a", "name": "abort"})
    steps.append({"do": "action", "vm": "a", "name": "start"})
    steps.append({"do": "action", "vm": "a", "name": "abort"})
    steps.append({"do": "load", "vm": "a", "text": "t__ [99, 0];\nt__ [99, 1];", "name": "final.sqf"})
    steps.append({"do": "action", "vm": "a", "name": "start"})
    steps.append({"do": "state", "vm": "a"})
    case = {"situation": situation, "threaded": threaded,
            "sched": {"slice_default": rng.choice([0, 0, 1, 3, 10])},
            "clock": {"per_instr_ns": 1000, "per_poll_ns": 100, "idle_jump": True}}
    case["plan"] = {"prop": PROP, "steps": steps, "sched": case["sched"], "clock": case["clock"],
                    "limits": {"max_instr": 60000, "max_events": 150000, "max_visits": 200000, "watchdog_s": 30},
                    "observe": {"visits": False, "slices": True, "sites": True, "instr": True}}
    return case


def windows(ev):
    """action windows: list of dicts in order of begin"""
    open_by_thread = {}
    out = []
    for e in ev:
        if e[1] == "act_begin":
            w = {"thread": e[2], "name": e[4], "b": e[0], "state_before": e[5], "nctx_before": e[6], "instr_b": e[7], "frames_b": e[9] if len(e) > 9 else None,
                 "e": None, "res": None}
            open_by_thread[e[2]] = w
            out.append(w)
        elif e[1] == "act":
            w = open_by_thread.pop(e[2], None)
            if w is not None:
                w.update({"e": e[0], "res": e[5], "state_after": e[6], "nctx_after": e[7], "instr_e": e[10], "exc": e[12], "frames_e": e[13] if len(e) > 13 else None, "live_after": e[14] if len(e) > 14 else None})
    return out


def judge(case, hs):
    h = hs[0]
    if "crash" in h:
        return [Violation("S7", "crash:" + crash_site(h["crash"]), h["crash"].get("stderr", "")[-2500:])]
    V = []
    ev = h["events"]
    if h.get("truncated"):
        return [Violation("S7", "S7:livelock:" + str(h["truncated"]), "the plan did not end within the step budget (situation %s)" % case["situation"])]
    for m in h.get("monitor", []):
        if m["rule"] == "S1":
            V.append(Violation("S1", "S1:two-executors", m["detail"]))
    ws = windows(ev)
    for w in ws:
        if w["e"] is None:
            V.append(Violation("S7", "S7:action-never-returned:" + w["name"], "action %s of thread %d never returned" % (w["name"], w["thread"])))
            return V
        if w["res"] == -99:
            V.append(Violation("S7", "S7:exception:" + w["name"], "C++ exception escaped execute(%s): %s" % (w["name"], w["exc"])))
    # flag hold intervals from the H3 sites
    holds = []   # (thread, cas_seq, release_seq, act_end_seq)
    cur = {}
    for e in ev:
        if e[1] == "y":
            t, site = e[2], e[4]
            if 1 <= site <= 5:
                cur[t] = [t, e[0], None, None]
                holds.append(cur[t])
            elif 11 <= site <= 15 and t in cur:
                cur[t][2] = e[0]
        elif e[1] == "act" and e[2] in cur:
            cur[e[2]][3] = e[0]
            del cur[e[2]]
    INF = 10**12
    for hd in holds:
        if hd[2] is None:
            hd[2] = INF
        if hd[3] is None:
            hd[3] = INF

    def others_hold(thread, b, e, strict):
        for t, c, r, a in holds:
            if t == thread:
                continue
            end = r if strict else a
            if c <= e and end >= b:
                return True
        return False

    def held_throughout(thread, b, e):
        for t, c, r, a in holds:
            if t != thread and c < b and r > e:
                return (t, c, r, a)
        return None

    instr_events = [e for e in ev if e[1] == "i"]
    for idx, w in enumerate(ws):
        name, res, th = w["name"], w["res"], w["thread"]
        b, e = w["b"], w["e"]
        overl = [x for x in ws if x is not w and x["b"] <= e and x["e"] >= b]
        # ---- S3
        if name in BLOCKING:
            if res == 1 and not others_hold(th, b, e, strict=False):
                V.append(Violation("S3", "S3:spurious-action-error:" + name, "%s returned action_error although no other executor held the run flag during the call (state before %d)" % (name, w["state_before"])))
            if res != 1:
                mine = [hd for hd in holds if hd[0] == th and b <= hd[1] <= e]
                for hd in mine:
                    for t, c, r, a in holds:
                        if t != th and c < hd[1] < r:
                            V.append(Violation("S1", "S1:two-holders", "%s acquired the run flag while thread %d held it" % (name, t)))
        elif name == "stop":
            if res == 0 and not others_hold(th, b, e, strict=False):
                V.append(Violation("S3", "S3:stop-ok-without-executor", "stop returned ok although nothing was executing (state before %d)" % w["state_before"]))
            hd = held_throughout(th, b, e)
            if res == 1 and hd is not None and any(x[1] == "sb" and hd[1] < x[0] < b for x in ev):
                V.append(Violation("S3", "S3:stop-refused-while-running", "stop returned action_error although an executor was running during the whole call"))
        elif name == "abort":
            if not overl and not others_hold(th, b, e, strict=False):
                if w["state_before"] in (1, 3):
                    # S6
                    if res != 0 or w["nctx_after"] != 0 or w["state_after"] != 0:
                        V.append(Violation("S6", "S6:abort-on-halted", "abort on a halted VM (state %d, %d scripts) returned %s and left state %d with %d scripts"
                                           % (w["state_before"], w["nctx_before"], RES_NAME.get(res, res), w["state_after"], w["nctx_after"])))
        # ---- S2 (nothing loaded): an executing action on a VM without scripts has nothing to do; the VM is empty before and after
        if name in BLOCKING and res != 1 and not overl and w["nctx_before"] == 0 and w["state_before"] == 0 and not others_hold(th, b, e, strict=False):
            if w["state_after"] != 0 or res not in (-1, 0):
                V.append(Violation("S2", "S2:empty-vm:%s" % name, "%s on a VM without scripts returned %s and left state %d" % (name, RES_NAME.get(res, res), w["state_after"])))
        # ---- S2 (idle state) when nothing else is in flight at the end of this action
        if not [x for x in ws if x is not w and x["b"] < e < x["e"]]:
            if w["state_after"] not in (0, 1, 3):
                V.append(Violation("S2", "S2:state-when-idle:%d" % w["state_after"], "after %s returned %s nothing is executing but the state is %d" % (name, RES_NAME.get(res, res), w["state_after"])))
            elif w["state_after"] == 0 and w.get("live_after") and name in BLOCKING and res != 1:
                V.append(Violation("S2", "S2:empty-with-scripts", "after %s the state is empty but %d scripts still have statements to run" % (name, w["live_after"])))
        # ---- S4 for actions not overlapped by another thread's action
        if not overl and res != 1:
            mine = [x for x in instr_events if b < x[0] < e]
            if name == "assembly_step":
                if len(mine) > 1:
                    V.append(Violation("S4", "S4:assembly-step-count", "assembly_step executed %d instructions" % len(mine)))
                elif len(mine) == 0 and res == 0 and w["nctx_before"] > 0 and w["frames_b"] not in (None, -1, 0):
                    pass  # frame pops without instruction are possible (end of a block): not judged
            elif name == "line_step" and mine:
                lines = set((x[3], x[5]) for x in mine)   # (ctx, line)
                l0 = (mine[0][3], mine[0][5])
                other = [x for x in mine if (x[3], x[5]) != l0]
                if other:
                    # classify: exactly one foreign instruction, executed last, right after the code of a scope ended or was
                    # exchanged (the step could not look across that boundary) - versus anything worse
                    kind = "many"
                    if len(other) == 1 and other[0] is mine[-1] and len(mine) >= 2 and (mine[-2][7] != mine[-1][7] or mine[-1][6] < mine[-2][6] or is_first_of_block(mine[-1])):
                        kind = "one-instruction-across-scope-change"
                    V.append(Violation("S4", "S4:line-step-overrun:" + kind, "line_step started on line %d and executed %d instructions of other lines (first: line %d `%s`, preceded by `%s`)"
                                       % (l0[1], len(other), other[0][5], other[0][4], mine[-2][4] if len(mine) > 1 else "")))
                else:
                    # must not stop early: the next instruction executed by this context afterwards is on another line (or none)
                    nxt = [x for x in instr_events if x[0] > e and x[3] == mine[0][3]]
                    later_actions = [x for x in ws if x["b"] > e and x["name"] in BLOCKING]
                    if nxt and later_actions and nxt[0][5] == l0[1] and w["res"] == 0 and same_frame_depth(mine[-1], nxt[0]):
                        V.append(Violation("S4", "S4:line-step-stops-early", "line_step stopped on line %d after `%s` although the next instruction `%s` is on the same line"
                                           % (l0[1], mine[-1][4], nxt[0][4])))
            elif name == "leave_scope" and w["frames_b"] not in (None, -1) and w["frames_e"] is not None and mine:
                if res == 0 and w["frames_e"] != -1 and w["frames_e"] >= w["frames_b"] and w["nctx_after"] >= w["nctx_before"]:
                    V.append(Violation("S4", "S4:leave-scope-did-not-leave", "leave_scope started with %d frames and returned ok with %d" % (w["frames_b"], w["frames_e"])))
        # ---- S5: stop/abort ok while an executor was running
        if name in ("stop", "abort") and res == 0:
            hd = held_throughout(th, b, e)
            if hd is not None:
                after = [x for x in instr_events if x[0] > e and x[0] < hd[3]]
                budget = 3     # the executor tests the request before every instruction
                if len(after) > budget:
                    V.append(Violation("S5", "S5:stop-not-bounded", "%s returned ok but the executor ran %d further instructions" % (name, len(after))))
                endw = [x for x in ws if x["thread"] == hd[0] and x["e"] == hd[3]]
                if endw and (endw[0]["state_after"] != 0 or endw[0]["nctx_after"] != 0):
                    nxt_actions = [x for x in ws if x["b"] > e and x["b"] < hd[3] and x["thread"] != hd[0]]
                    if not nxt_actions:
                        V.append(Violation("S5", "S5:not-empty-after-stop", "%s returned ok; the executor then returned %s leaving state %d and %d scripts"
                                           % (name, RES_NAME.get(endw[0]["res"], endw[0]["res"]), endw[0]["state_after"], endw[0]["nctx_after"])))
    # ---- S6 (continued): what an abort on a halted VM discarded never executes again - until something new is loaded,
    # no action finds an instruction to run
    loads = [e[0] for e in ev if e[1] == "load"]
    for w in ws:
        if w["name"] != "abort" or w["res"] != 0 or w["state_before"] not in (1, 3) or w["state_after"] != 0 or w["nctx_after"] != 0:
            continue
        if [x for x in ws if x is not w and x["b"] <= w["e"] and x["e"] >= w["b"]] or others_hold(w["thread"], w["b"], w["e"], strict=False):
            continue
        nxt_load = min([l for l in loads if l > w["e"]] or [10**12])
        for w2 in ws:
            if w2["b"] <= w["e"] or w2["b"] >= nxt_load:
                continue
            ran = [x for x in instr_events if w2["b"] < x[0] < w2["e"]]
            if ran:
                V.append(Violation("S6", "S6:discarded-script-executes:" + w2["name"], "abort on a halted VM returned ok and left the VM empty; the following %s (result %s) then executed %d instruction(s) of the discarded script, first `%s`"
                                   % (w2["name"], RES_NAME.get(w2["res"], w2["res"]), len(ran), ran[0][4] if len(ran[0]) > 4 else "?")))
                break
    # ---- S7: still usable
    final = [e for e in ev if e[1] == "t" and e[4].startswith("[99,")]
    if len(final) != 2:
        V.append(Violation("S7", "S7:vm-unusable-afterwards", "after the plan (situation %s) a fresh two-statement script produced %d of 2 markers; last actions: %r"
                           % (case["situation"], len(final), [(w["name"], RES_NAME.get(w["res"], w["res"])) for w in ws[-4:]])))
    out = {}
    for v in V:
        out.setdefault(v.key, v)
    return list(out.values())


def is_first_of_block(i):
    # instr event: [seq,'i',vm,ctx,text,line,col,frames,values]; the first instruction of freshly loaded code starts with an empty region
    return True


def same_frame_depth(a, b):
    return a[7] == b[7]


def signature(case, hs):
    h = hs[0]
    if "crash" in h:
        return None
    ev = h["events"]
    ws = windows(ev)
    states = set()
    seq = []
    for w in ws:
        if w["e"] is None:
            return None
        states.add(w["state_before"])
        states.add(w["state_after"])
        seq.append((w["thread"], w["name"], w["res"], w["state_after"]))
    landed = any(e[1] == "sw" for e in ev)
    if not landed and len(states) < 3:
        return None
    sw = [(e[2], e[3], e[4]) for e in ev if e[1] == "sw"]
    return hashlib.sha256(repr((seq, sw[:60])).encode()).hexdigest()[:16]


def stats(case, hs):
    h = hs[0]
    if "crash" in h:
        return {"crashes": 1}
    c = h.get("counters", {})
    sites = {k: v for k, v in c.get("probes", {}).items() if k.startswith("site")}
    switch_sites = {}
    for e in h["events"]:
        if e[1] == "sw":
            switch_sites[str(e[4])] = switch_sites.get(str(e[4]), 0) + 1
    return {"instr": c.get("instr", 0), "threaded_runs": 1 if case["threaded"] else 0, "switches": c.get("switches", 0),
            "yield_sites_reached": sites, "switches_at_site": switch_sites, "situations": {case["situation"]: 1}}


def sample_view(case):
    steps = []
    for s in case["plan"]["steps"]:
        if s["do"] == "par":
            steps.append({"par": [[x["name"] for x in t] for t in s["threads"]], "yields": s["yields"][:30]})
        elif s["do"] == "action":
            steps.append(s["name"])
        elif s["do"] == "load":
            steps.append({"load": s["text"][:200]})
    return {"situation": case["situation"], "steps": steps}


def shrink_candidates(case):
    steps = case["plan"]["steps"]
    tail = 7
    # drop single actions (not the epilogue)
    for i in range(len(steps) - tail - 1, 0, -1):
        st = steps[i]
        if st["do"] == "action":
            c = copy.deepcopy(case)
            del c["plan"]["steps"][i]
            yield c
        elif st["do"] == "par":
            for ti in range(2):
                for ai in range(len(st["threads"][ti]) - 1, -1, -1):
                    if len(st["threads"][ti]) > 1:
                        c = copy.deepcopy(case)
                        del c["plan"]["steps"][i]["threads"][ti][ai]
                        yield c
            if len(st["yields"]) > 1:
                c = copy.deepcopy(case)
                c["plan"]["steps"][i]["yields"] = st["yields"][:len(st["yields"]) // 2]
                yield c
                for yi in range(len(st["yields"])):
                    if st["yields"][yi] != -1:
                        c = copy.deepcopy(case)
                        c["plan"]["steps"][i]["yields"][yi] = -1
                        yield c
            # sequentialise
            c = copy.deepcopy(case)
            seq = st["threads"][0] + st["threads"][1]
            c["plan"]["steps"][i:i + 1] = seq
            c["threaded"] = False
            yield c
