"""C05 — the operand stack is partitioned per scope; a scope yields exactly one value.

Expression-heavy programs (arrays and binary expressions with pending operands whose later operands are
constructs that exit early, break out, throw, have an error caught inside them, or end in a statement that leaves
no value), run unscheduled or as interleaved scheduled scripts with slice lengths 1..7. The C++ monitor
(sim/stackmon.cpp) checks I1..I6 at every instruction boundary; the trace is cross-checked with the
reference interpreter."""
import hashlib

from .. import progcheck as pc
from ..core import Violation

PROP = "C05"
LEVEL = "exploration"
RUNS = {"quick": 7000, "thorough": 300000}
TIME_CAP = {"quick": 150, "thorough": 1500}
RULE = ("typed random expression-heavy programs; the monitor checks I1-I6 after every instruction; non-trivial when at least one "
        "non-local exit or unwind (exitWith, breakOut, throw, caught error) or valueless block happened inside a construct used as an "
        "operand; distinct by hash of (exit kinds present, construct nesting shape, schedule kind, slice cut signature)")
REAL = ["src/runtime/context.h value stack", "src/runtime/runtime.cpp frame completion and error unwinding", "src/opcodes/*", "src/operators/ops_generic.cpp"]
STUB = ["system_clock (virtual)", "logger (recording)", "slice length (hook)"]
ASSUMPTIONS = ["the monitor observes through the guarded hooks only and never modifies the VM",
               "identity of operands is the identity of their data objects"]

OPTS = dict(max_depth=4, max_stmts=4, budget=40, scoping=0.05, early=0.5, loops=0.35, case_mix=0.0, spawn=0.0, with_ns=0.0, fn=0.0,
            faults=0.6, natural_faults=0.3, handlers=0.5, valueless_loops=0.5)
QUIRKS = ()


def generate(rng, tier, run):
    o = dict(OPTS)
    o["max_depth"] = rng.choice([3, 4, 5, 6])
    o["early"] = rng.choice([0.2, 0.5, 0.8])
    o["faults"] = rng.choice([0.0, 0.6])
    o["handlers"] = rng.choice([0.0, 0.5, 1.0]) if o["faults"] else 0.0
    o["natural_faults"] = 0.3 if o["faults"] else 0.0
    o["valueless_loops"] = rng.choice([0.0, 0.5, 0.8])
    case = pc.build_case(rng, o, PROP, observe={"stack": True}, scheduled_prob=0.5)
    if case["scheduled"] and "slices" in case["sched"]:
        case["sched"]["slices"] = [1 + (x % 7) for x in case["sched"]["slices"]]
        case["plan"] = pc.build_plan(case)
    return case


def judge(case, hs):
    h = hs[0]
    if "crash" in h:
        return [pc.crash_violation(h, "crash")]
    if h.get("truncated"):
        return [Violation("termination", "not-terminated:" + str(h["truncated"]), "terminating program was cut by the step budget")]
    V = []
    for m in h.get("monitor", []):
        if m["rule"].startswith("I"):
            culprit = m["culprit"].split(" ")[-1] if " " in m["culprit"] else m["culprit"]
            if m["culprit"].startswith("PUSH") or m["culprit"].startswith("GETVARIABLE") or m["culprit"].startswith("ASSIGNTO") or m["culprit"].startswith("MAKEARRAY"):
                culprit = m["culprit"].split(" ")[0]
            V.append(Violation(m["rule"], "%s:after:%s" % (m["rule"], culprit), "%s (after instruction `%s`, dynamic instruction %d)" % (m["detail"], m["culprit"], m["instr"])))
    it, unm = pc.run_model(case, QUIRKS)
    if unm is None:
        failed = [s for s in it.scripts if s.error is not None]
        mm = pc.compare_traces(case, h, it, prefix_ok=bool(failed))
        if failed:
            fs = set(s.sid for s in failed)
            mm = [m for m in mm if m[0] in fs or m[2].split("@")[0] in ("value", "order", "extra")]
        for sid, msg, cls in mm[:1]:
            V.append(Violation("value", "value:" + cls, msg))
    out = {}
    for v in V:
        out.setdefault(v.key, v)
    return list(out.values())


def signature(case, hs):
    h = hs[0]
    if "crash" in h:
        return None
    feats = set(case.get("features", []))
    exits = feats & {"exitWith", "breakOut", "throw", "except", "valueless_operand", "fault_stmt", "fault_expr", "fault_any_position", "natural_fault"}
    if not exits:
        return None
    base = pc.signature(case, hs)
    if base is None:
        return None
    return hashlib.sha256((base + repr(sorted(exits))).encode()).hexdigest()[:16]


def stats(case, hs):
    out = pc.stats(case, hs)
    h = hs[0]
    if "crash" not in h:
        out["probes"] = dict(h.get("counters", {}).get("probes", {}))
        out["monitor_rules_checked_per_instruction"] = 6
    return out


def sample_view(case):
    from .. import sqf
    return {"scheduled": case["scheduled"], "sched": case["sched"], "sqf": sqf.p_program(pc.main_block(case))[:2500]}


def _rebuild(c):
    c["plan"] = pc.build_plan(c)
    return c


def shrink_candidates(case):
    return pc.shrink_candidates_progs(case, _rebuild)
