"""C12 — scheduler fair and isolating; sleep, scriptDone, terminate.

Simulated run: one unscheduled main script spawns 2..6 scheduled scripts (some spawned by other
scripts), each a straight-line mix of markers, bounded loops, sleeps, waitUntil, scriptDone polls and
terminate. The schedule (slice length per slice), the clock policy (cost per instruction / poll,
forward jumps) come from the seed. Oracles R1..R7 run over the recorded visit / slice / trace events.
"""
import struct
import hashlib

from ..core import Violation
from ..sqfval import parse

PROP = "C12"
LEVEL = "exploration"
RUNS = {"quick": 15000, "thorough": 600000}
TIME_CAP = {"quick": 150, "thorough": 1500}
RULE = ("a run = main + 2..6 spawned scripts under a seeded slice schedule and clock policy; non-trivial when >=2 "
        "scripts were alive at once and at least one of {erase with later contexts pending, spawn mid-round, sleep, "
        "terminate, poll, waitUntil} occurred; distinct by hash of the interleaving signature "
        "(sequence of (context ordinal, instructions executed in slice))")
REAL = ["src/runtime/runtime.cpp scheduler loop and execute_do", "src/operators/ops_generic.cpp spawn/sleep/waitUntil/terminate/scriptDone",
        "src/parser/sqf", "src/parser/preprocessor"]
STUB = ["system_clock (virtual clock)", "logger (recording)", "slice length (hook H2)"]
ASSUMPTIONS = ["scripts are data-disjoint by construction (own locals and per-script globals only)",
               "interleavings are explored at instruction granularity through the slice-length hook",
               "backward clock jumps are not injected"]

SLEEP_POOL = [0, 0.0625, 0.125, 0.25, 0.5, 1, 2, 3, 60, 3600]


def f32(x):
    return struct.unpack("f", struct.pack("f", x))[0]


def sleep_ms(d):
    return int(f32(f32(d) * f32(1000.0)))


# ---------------------------------------------------------------------------------------------
# generation
# ---------------------------------------------------------------------------------------------
def gen_script(rng, sid, nscripts, scheduled, children, budget, wait_targets, short_sleeps=False):
    """Returns list of statements (JSON-able)."""
    st = [["m", 0]]
    k = 1
    n = rng.randint(1, budget)
    pending_children = list(children)
    for _ in range(n):
        r = rng.random()
        if pending_children and r < 0.35:
            st.append(["spawn", pending_children.pop(0)])
        elif r < 0.45:
            st.append(["m", k]); k += 1
        elif r < 0.62:
            st.append(["loop", k, rng.choice([1, 2, 3, 5, 8, 20, 60])]); k += 1
        elif r < 0.74 and scheduled:
            st.append(["sleep", k, rng.choice(SLEEP_POOL[:6] if short_sleeps else SLEEP_POOL)]); k += 1
        elif r < 0.82:
            st.append(["poll", k, rng.randint(1, nscripts)]); k += 1
        elif r < 0.88 and scheduled:
            st.append(["wu", k, rng.randint(1, 4)]); k += 1
        elif r < 0.92 and scheduled and wait_targets:
            st.append(["wud", k, rng.choice(wait_targets)]); k += 1
        elif r < 0.97:
            t = rng.randint(1, nscripts)
            if t == sid and scheduled:
                st.append(["termself", k])
            else:
                st.append(["term", k, t])
            k += 1
        else:
            st.append(["m", k]); k += 1
    for c in pending_children:
        st.append(["spawn", c])
    st.append(["m", k])
    return st


def generate(rng, tier, run):
    nscripts = rng.randint(2, 6)
    # parent of each script: 0 = main
    parents = {}
    for sid in range(1, nscripts + 1):
        parents[sid] = 0 if sid == 1 or rng.random() < 0.6 else rng.randint(1, sid - 1)
    children = {p: [s for s in range(1, nscripts + 1) if parents[s] == p] for p in range(0, nscripts + 1)}
    budget = rng.choice([3, 6, 10])
    scripts = {}
    # deadlock freedom by construction: only "waiter" scripts contain waitUntil{scriptDone h}, and they wait only
    # for non-waiter scripts spawned by main (main is never terminated, so those are always spawned and always end)
    waiter = {sid: rng.random() < 0.5 for sid in range(1, nscripts + 1)}
    targets = [s for s in children[0] if not waiter[s]]
    for sid in range(0, nscripts + 1):
        wt = [t for t in targets if t != sid] if (sid != 0 and waiter[sid]) else []
        scripts[str(sid)] = gen_script(rng, sid, nscripts, sid != 0, children[sid], budget, wt, short_sleeps=(sid in targets))
    # schedule
    mode = rng.random()
    sched = {}
    if mode < 0.55:
        sched["slice_default"] = rng.choice([1, 2, 3, 5, 8, 13, 150])
    else:
        L = rng.choice([2, 4, 7, 20])
        sched["slices"] = [rng.randint(1, L) for _ in range(rng.randint(20, 200))]
        sched["slice_default"] = rng.choice([1, 3, 150])
    clock = {"per_instr_ns": rng.choice([0, 1000, 100000, 1000000, 7000000]),
             "per_poll_ns": rng.choice([0, 100, 10000]), "idle_jump": True}
    if rng.random() < 0.3:
        clock["jumps"] = [{"after_instr": rng.randint(1, 400), "by_ns": rng.choice([10**6, 10**9, 3 * 10**9, 10**12])}
                          for _ in range(rng.randint(1, 3))]
    case = {"scripts": scripts, "nscripts": nscripts, "sched": sched, "clock": clock}
    case["plan"] = build_plan(case)
    return case


def sqf_of(case, sid):
    out = []
    scripts = case["scripts"]
    for s in scripts[str(sid)]:
        op = s[0]
        if op == "m":
            out.append("t__ [%d,%d];" % (sid, s[1]))
        elif op == "loop":
            out.append('for "_i" from 1 to %d do { t__ [%d,%d,_i]; };' % (s[2], sid, s[1]))
        elif op == "sleep":
            out.append('t__ [%d,%d,"s0"]; sleep %s; t__ [%d,%d,"s1"];' % (sid, s[1], repr(s[2]), sid, s[1]))
        elif op == "poll":
            out.append('if (!isNil "h%d") then { t__ [%d,%d,"sd",%d,scriptDone h%d]; } else { t__ [%d,%d,"sdnil",%d]; };'
                       % (s[2], sid, s[1], s[2], s[2], sid, s[1], s[2]))
        elif op == "wu":
            out.append('private _c%d = 0; waitUntil { _c%d = _c%d + 1; t__ [%d,%d,"wu",_c%d]; _c%d >= %d }; t__ [%d,%d,"wue"];'
                       % (s[1], s[1], s[1], sid, s[1], s[1], s[1], s[2], sid, s[1]))
        elif op == "wud":
            out.append('waitUntil { t__ [%d,%d,"wud",%d]; (!isNil "h%d") && {scriptDone h%d} }; t__ [%d,%d,"wude",%d];'
                       % (sid, s[1], s[2], s[2], s[2], sid, s[1], s[2]))
        elif op == "term":
            out.append('if (!isNil "h%d") then { t__ [%d,%d,"term",%d]; terminate h%d; t__ [%d,%d,"termd",%d]; };'
                       % (s[2], sid, s[1], s[2], s[2], sid, s[1], s[2]))
        elif op == "termself":
            out.append('t__ [%d,%d,"term",%d]; terminate _thisScript; t__ [%d,%d,"termd",%d];' % (sid, s[1], sid, sid, s[1], sid))
        elif op == "spawn":
            out.append("h%d = [] spawn { %s };" % (s[1], sqf_of(case, s[1])))
    return " ".join(out)


def build_plan(case):
    return {
        "prop": PROP,
        "steps": [{"do": "vm_new", "vm": "a", "conf": {"print_work": False}},
                  {"do": "load", "vm": "a", "text": sqf_of(case, 0), "name": "main.sqf"},
                  {"do": "action", "vm": "a", "name": "start"},
                  {"do": "state", "vm": "a"}],
        "sched": case["sched"], "clock": case["clock"],
        "limits": {"max_instr": 150000, "max_events": 300000, "max_visits": 600000, "watchdog_s": 60},
        "observe": {"visits": True, "slices": True, "ops": ["scriptdone", "terminate"]},
    }


# ---------------------------------------------------------------------------------------------
# model: expected marker sequence of one script (None = wildcard value)
# ---------------------------------------------------------------------------------------------
ANY = "__any__"


def expected(case, sid):
    """list of items; item = payload list, or ('wud', k, T) meaning >=1 repetitions of [sid,k,'wud',T]."""
    out = []
    for s in case["scripts"][str(sid)]:
        op = s[0]
        if op == "m":
            out.append([sid, s[1]])
        elif op == "loop":
            for i in range(1, s[2] + 1):
                out.append([sid, s[1], i])
        elif op == "sleep":
            out.append([sid, s[1], "s0"])
            out.append([sid, s[1], "s1"])
        elif op == "poll":
            out.append(("poll", s[1], s[2]))
        elif op == "wu":
            for i in range(1, s[2] + 1):
                out.append([sid, s[1], "wu", i])
            out.append([sid, s[1], "wue"])
        elif op == "wud":
            out.append(("wud", s[1], s[2]))
            out.append([sid, s[1], "wude", s[2]])
        elif op == "term":
            out.append(("term", s[1], s[2]))
        elif op == "termself":
            out.append([sid, s[1], "term", sid])
            out.append([sid, s[1], "termd", sid])
    return out


def match_sequence(sid, exp, obs):
    """Returns (ok, position, message). obs must be a prefix-match of exp (complete match checked by caller)."""
    i = 0
    j = 0
    while j < len(obs):
        if i >= len(exp):
            return False, j, "extra marker %r after the end of script %d" % (obs[j], sid)
        e = exp[i]
        o = obs[j]
        if isinstance(e, tuple):
            kind = e[0]
            if kind == "poll":
                if o[:3] == [sid, e[1], "sd"] and len(o) == 5 and o[3] == e[2] and isinstance(o[4], bool):
                    i += 1; j += 1; continue
                if o == [sid, e[1], "sdnil", e[2]]:
                    i += 1; j += 1; continue
                return False, j, "expected poll marker k=%d, got %r" % (e[1], o)
            if kind == "term":
                # guarded by isNil: either both markers or none
                if o == [sid, e[1], "term", e[2]]:
                    if j + 1 < len(obs):
                        if obs[j + 1] != [sid, e[1], "termd", e[2]]:
                            return False, j + 1, "expected termd marker k=%d, got %r" % (e[1], obs[j + 1])
                        j += 2
                    else:
                        j += 1
                    i += 1
                    continue
                i += 1  # handle was nil: statement skipped
                continue
            if kind == "wud":
                if o == [sid, e[1], "wud", e[2]]:
                    j += 1
                    while j < len(obs) and obs[j] == [sid, e[1], "wud", e[2]]:
                        j += 1
                    i += 1
                    continue
                return False, j, "expected waitUntil marker k=%d, got %r" % (e[1], o)
        else:
            if o == e:
                i += 1; j += 1; continue
            return False, j, "expected %r, got %r" % (e, o)
    return True, i, ""


# ---------------------------------------------------------------------------------------------
# judge
# ---------------------------------------------------------------------------------------------
def judge(case, hs):
    h = hs[0]
    V = []
    if "crash" in h:
        from ..core import crash_site
        return [Violation("R7", "crash:" + crash_site(h["crash"]), h["crash"].get("stderr", "")[-1500:])]
    ev = h["events"]
    if h.get("truncated"):
        V.append(Violation("R7", "R7:not-terminated:" + str(h["truncated"]), "run was cut by the step budget"))
        return V
    nscripts = case["nscripts"]
    # ---- collect
    visits = []       # (seq, index, ctx, susp, wake, clock, ids)
    slices = {}       # visit seq -> (sb event, se event)
    cur_visit = None
    t_by_ctx = {}
    all_t = []
    logs = []
    sid_ctx = {}
    ctx_sid = {}
    pending_sb = None
    pending_ops = {}
    for e in ev:
        k = e[1]
        if k == "v":
            cur_visit = {"seq": e[0], "index": e[3], "ctx": e[4], "susp": e[5], "wake": e[6], "clock": e[7], "ids": e[8], "sb": None, "se": None, "res": None}
            visits.append(cur_visit)
        elif k == "sb":
            if cur_visit is not None and cur_visit["sb"] is None and cur_visit["res"] is None:
                cur_visit["sb"] = e
            pending_sb = e
        elif k == "se":
            if cur_visit is not None and cur_visit["se"] is None and cur_visit["res"] is None:
                cur_visit["se"] = e
            if pending_sb is not None and e[4] > pending_sb[4]:
                V.append(Violation("R2", "R2:slice-exceeds-budget", "slice executed %d > budget %d" % (e[4], pending_sb[4])))
        elif k == "vd":
            if cur_visit is not None:
                cur_visit["res"] = e[4]
        elif k == "t":
            p = parse(e[4])
            rec = {"seq": e[0], "ctx": e[3], "p": p, "clock": e[6]}
            all_t.append(rec)
            t_by_ctx.setdefault(e[3], []).append(rec)
            if isinstance(p, list) and len(p) >= 2 and p[1] == 0 and isinstance(p[0], int):
                if p[0] not in sid_ctx:
                    sid_ctx[p[0]] = e[3]
                    ctx_sid[e[3]] = p[0]
        elif k == "log":
            logs.append(e)
        elif k == "op":
            # exact stamp of a scriptDone / terminate execution; paired with the next marker of the same context
            pending_ops.setdefault(e[3], []).append({"seq": e[0], "name": e[4], "top": e[5]})
    # pair op events with the markers that report them (the first sd/termd marker of that context after the op)
    for ctx, recs in t_by_ctx.items():
        ops = pending_ops.get(ctx, [])
        for r in recs:
            p = r["p"]
            if not isinstance(p, list) or len(p) < 3:
                continue
            want = "scriptdone" if p[2] == "sd" else ("terminate" if p[2] == "termd" else None)
            if want is None:
                continue
            best = None
            for o in ops:
                if o["seq"] < r["seq"] and o["name"] == want:
                    best = o
                elif o["seq"] >= r["seq"]:
                    break
            if best is not None:
                r["op_seq"] = best["seq"]
    # ---- R0: no error-level diagnostics are expected from these programs
    for e in logs:
        if e[3] <= 1:
            V.append(Violation("R0", "R0:unexpected-error:%d" % e[4], "error-level diagnostic in an error-free program: %s" % e[8]))
            break
    act = [e for e in ev if e[1] == "act"]
    if act and act[0][5] not in (-1,):
        V.append(Violation("R7", "R7:start-result:%d" % act[0][5], "start returned %d instead of empty(-1)" % act[0][5]))

    # ---- R1: round robin walk
    for a, b in zip(visits, visits[1:]):
        ids_a = a["ids"]
        erased = a["res"] == -1
        base = [c for i, c in enumerate(ids_a) if not (erased and i == a["index"])]
        ids_b = b["ids"]
        if ids_b[:len(base)] != base:
            V.append(Violation("R1", "R1:list-order", "context list changed other than by erase/append: %r (index %d, erased=%s) -> %r" % (ids_a, a["index"], erased, ids_b)))
            break
        if erased:
            want = a["index"] if a["index"] < len(ids_b) else 0
        else:
            want = a["index"] + 1 if a["index"] + 1 < len(ids_b) else 0
        if b["index"] != want:
            V.append(Violation("R1", "R1:skip-or-repeat", "after visit of index %d (erased=%s) in %r the next visit was index %d of %r, expected %d"
                               % (a["index"], erased, ids_a, b["index"], ids_b, want)))
            break
        if b["ctx"] != ids_b[b["index"]]:
            V.append(Violation("R1", "R1:active-mismatch", "visited context is not the list element"))
            break
    # slice given iff runnable
    for v in visits:
        runnable = (v["susp"] == 0) or (v["wake"] <= v["clock"])
        got = v["sb"] is not None
        if runnable and not got:
            V.append(Violation("R1", "R1:runnable-not-run", "context %d runnable at visit seq %d got no slice" % (v["ctx"], v["seq"])))
            break
        if not runnable and got:
            V.append(Violation("R4", "R4:resumed-early", "context %d resumed at clock %d before wake-up %d" % (v["ctx"], v["clock"], v["wake"])))
            break

    # ---- R3: per-script projection equals the model (prefix when terminated)
    term_targets = set()
    term_events = []  # (seq, by_sid, target_sid)
    for r in all_t:
        p = r["p"]
        if isinstance(p, list) and len(p) == 4 and p[2] == "termd":
            term_targets.add(p[3])
            term_events.append((r.get("op_seq", r["seq"]), p[0], p[3]))
        elif isinstance(p, list) and len(p) == 4 and p[2] == "term":
            term_targets.add(p[3])  # terminate may have executed although the termd marker was never reached
    for sid in range(0, nscripts + 1):
        ctx = sid_ctx.get(sid)
        if ctx is None:
            continue
        obs = [r["p"] for r in t_by_ctx.get(ctx, [])]
        exp = expected(case, sid)
        ok, pos, msg = match_sequence(sid, exp, obs)
        if not ok:
            # classify the classic waitUntil defect separately (stable key)
            key = "R3:projection-mismatch"
            if "wue" in msg or "wude" in msg:
                key = "R4:waituntil-left-without-true"
            V.append(Violation("R3" if key.startswith("R3") else "R4", key, "script %d: %s" % (sid, msg)))
            continue
        if pos < len(exp) and sid not in term_targets:
            V.append(Violation("R3", "R3:script-incomplete", "script %d stopped after %d of %d expected items without being terminated" % (sid, pos, len(exp))))
    # every spawn executed must lead to the child's first marker (no starvation), unless child terminated
    # (a spawn statement has no marker of its own; completeness of the parent covers it)
    for sid in range(1, nscripts + 1):
        if sid in sid_ctx:
            continue
        parent = None
        for ps, stmts in case["scripts"].items():
            if any(s[0] == "spawn" and s[1] == sid for s in stmts):
                parent = int(ps)
        # parent completed?
        pctx = sid_ctx.get(parent)
        if pctx is None:
            continue
        pobs = [r["p"] for r in t_by_ctx.get(pctx, [])]
        pexp = expected(case, parent)
        ok, pos, _ = match_sequence(parent, pexp, pobs)
        if ok and pos == len(pexp) and sid not in term_targets:
            V.append(Violation("R1", "R1:spawned-never-ran", "script %d was spawned by %d (which completed) but never ran" % (sid, parent)))

    # ---- R4: sleep durations
    for ctx, recs in t_by_ctx.items():
        for a, b in zip(recs, recs[1:]):
            pa, pb = a["p"], b["p"]
            if isinstance(pa, list) and len(pa) == 3 and pa[2] == "s0" and isinstance(pb, list) and pb[:2] == pa[:2] and pb[2] == "s1":
                sid = pa[0]
                d = None
                for s in case["scripts"][str(sid)]:
                    if s[0] == "sleep" and s[1] == pa[1]:
                        d = s[2]
                if d is not None and b["clock"] - a["clock"] < sleep_ms(d) * 1000000:
                    V.append(Violation("R4", "R4:sleep-too-short", "script %d slept %d ns of %d ms" % (sid, b["clock"] - a["clock"], sleep_ms(d))))

    # ---- erase points per ctx
    erased_at = {}
    seen = set()
    for v in visits:
        for c in list(seen):
            if c not in v["ids"] and c not in erased_at:
                erased_at[c] = v["seq"]
        seen.update(v["ids"])
    last_event_of = {}
    for r in all_t:
        last_event_of[r["ctx"]] = r["seq"]
    # ---- R5: scriptDone
    for r in all_t:
        p = r["p"]
        if isinstance(p, list) and len(p) == 5 and p[2] == "sd":
            T = p[3]
            tctx = sid_ctx.get(T)
            at = r.get("op_seq")
            if at is None:
                continue
            if p[4] is True:
                if tctx is not None and last_event_of.get(tctx, -1) > at:
                    V.append(Violation("R5", "R5:done-but-ran-later", "scriptDone h%d was true at seq %d but script %d produced an event at %d" % (T, at, T, last_event_of[tctx])))
            else:
                if tctx is not None and tctx in erased_at and erased_at[tctx] < at:
                    V.append(Violation("R5", "R5:not-done-after-end", "scriptDone h%d false at seq %d although its context was erased at %d" % (T, at, erased_at[tctx])))
    # wud: leaving requires the target to be done => no later event of target
    for r in all_t:
        p = r["p"]
        if isinstance(p, list) and len(p) == 4 and p[2] == "wude":
            tctx = sid_ctx.get(p[3])
            if tctx is not None and last_event_of.get(tctx, -1) > r["seq"]:
                V.append(Violation("R4", "R4:waituntil-left-without-true", "script %d left waitUntil{scriptDone h%d} at seq %d but script %d ran afterwards" % (p[0], p[3], r["seq"], p[3])))

    # ---- R6: terminate
    for seq, by, T in term_events:
        tctx = sid_ctx.get(T)
        if tctx is None:
            continue
        if by == T:
            # self: nothing after the end of the current slice
            cut = None
            for v in visits:
                if v["se"] is not None and v["se"][0] > seq and v["ctx"] == tctx:
                    cut = v["se"][0]
                    break
        else:
            cut = None
            for v in visits:
                if v["seq"] > seq and v["ctx"] == tctx:
                    cut = v["seq"]
                    break
        if cut is None:
            continue
        later = [r for r in t_by_ctx.get(tctx, []) if r["seq"] > cut]
        if later:
            V.append(Violation("R6", "R6:terminated-script-ran", "script %d was terminated by %d at seq %d but executed %r at seq %d (after its next scheduling point %d)"
                               % (T, by, seq, later[0]["p"], later[0]["seq"], cut)))
    # dedupe by key
    out = {}
    for v in V:
        out.setdefault(v.key, v)
    return list(out.values())


def signature(case, hs):
    h = hs[0]
    if "crash" in h or not h.get("events"):
        return None
    ev = h["events"]
    maxlive = 0
    sig = hashlib.sha256()
    feats = set()
    for e in ev:
        if e[1] == "v":
            maxlive = max(maxlive, len(e[8]))
            if e[5] == 1:
                feats.add("sleep")
        elif e[1] == "se":
            sig.update(("%d:%d;" % (e[3], e[4])).encode())
        elif e[1] == "vd" and e[4] == -1:
            feats.add("erase")
        elif e[1] == "t" and ('"term' in e[4] or '"sd"' in e[4] or '"wu' in e[4]):
            feats.add("ctl")
    if maxlive >= 2 and feats:
        return sig.hexdigest()[:16]
    return None


def stats(case, hs):
    h = hs[0]
    if "crash" in h:
        return {"crashes": 1}
    c = h.get("counters", {})
    ev = h["events"]
    out = {"instr": c.get("instr", 0), "visits": c.get("visits", 0), "clock_jumps_idle": c.get("clock_jumps", 0),
           "sim_time_s": (c.get("clock_end_ns", 0) - 1600000000 * 10**9) / 1e9,
           "faults_fired": dict(c.get("faults_fired", {}))}
    probes = {"terminate": 0, "terminate_self": 0, "poll": 0, "waituntil_eval": 0, "sleep": 0, "erase_with_later_pending": 0, "spawn_mid_round": 0, "wake_tie": 0}
    prev_ids = None
    wakes = {}
    for e in ev:
        if e[1] == "t":
            s = e[4]
            if '"termd"' in s:
                probes["terminate"] += 1
            elif '"sd"' in s:
                probes["poll"] += 1
            elif '"wu' in s:
                probes["waituntil_eval"] += 1
            elif '"s0"' in s:
                probes["sleep"] += 1
        elif e[1] == "v":
            if prev_ids is not None and len(e[8]) > len(prev_ids) and e[3] != 0:
                probes["spawn_mid_round"] += 1
            prev_ids = e[8]
            if e[5] == 1:
                if e[6] in wakes and wakes[e[6]] != e[4]:
                    probes["wake_tie"] += 1
                wakes[e[6]] = e[4]
        elif e[1] == "vd" and e[4] == -1 and prev_ids is not None and e[3] < len(prev_ids) - 1:
            probes["erase_with_later_pending"] += 1
    out["probes"] = probes
    return out


def sample_view(case):
    return {"sqf_main": sqf_of(case, 0)[:1500], "sched": case["sched"], "clock": case["clock"]}


def shrink_candidates(case):
    import copy
    # drop one statement of one script
    for sid in sorted(case["scripts"], key=int, reverse=True):
        stmts = case["scripts"][sid]
        for i in range(len(stmts) - 1, 0, -1):
            if stmts[i][0] == "spawn":
                continue
            c = copy.deepcopy(case)
            del c["scripts"][sid][i]
            c["plan"] = build_plan(c)
            yield c
    # drop a whole leaf script (one that spawns nothing): remove its spawn statement
    for sid in sorted(case["scripts"], key=int, reverse=True):
        if sid == "0":
            continue
        if any(s[0] == "spawn" for s in case["scripts"][sid]):
            continue
        if any(s[0] == "wud" and s[2] == int(sid) for st in case["scripts"].values() for s in st):
            continue  # keep wait targets: removing them would manufacture a deadlock
        c = copy.deepcopy(case)
        for ps in c["scripts"]:
            c["scripts"][ps] = [s for s in c["scripts"][ps] if not (s[0] == "spawn" and s[1] == int(sid))]
        c["scripts"][sid] = [["m", 0]]
        c["plan"] = build_plan(c)
        if c != case:
            yield c
    # shrink loop counts
    for sid in case["scripts"]:
        for i, s in enumerate(case["scripts"][sid]):
            if s[0] == "loop" and s[2] > 1:
                c = copy.deepcopy(case)
                c["scripts"][sid][i][2] = 1
                c["plan"] = build_plan(c)
                yield c
    # simplify schedule / clock
    if "slices" in case["sched"]:
        c = copy.deepcopy(case)
        del c["sched"]["slices"]
        c["plan"] = build_plan(c)
        yield c
    if case["clock"].get("jumps"):
        c = copy.deepcopy(case)
        del c["clock"]["jumps"]
        c["plan"] = build_plan(c)
        yield c
    if case["clock"]["per_instr_ns"] != 1000 or case["clock"]["per_poll_ns"] != 100:
        c = copy.deepcopy(case)
        c["clock"]["per_instr_ns"] = 1000
        c["clock"]["per_poll_ns"] = 100
        c["plan"] = build_plan(c)
        yield c
