"""C07 — equality is an equivalence consistent with hashing; a HashMap is a finite map keyed by isEqualTo.

Laws of equality are evaluated on pairs of separately constructed values; hashmap histories run on the shared heap
engine (simlib/heapcheck.py): 1-3 scheduled clients operate on aliased hashmaps and arrays under seeded slice lengths,
keys are drawn from a pool built to collide (+-0, strings differing in case, equal nested arrays, arrays that are mutated
after insertion, code, hashmaps), and a reference dictionary replays the recorded operator events."""
from .. import heapcheck as hc

PROP = "C07"
LEVEL = "exploration"
RUNS = {"quick": 6000, "thorough": 300000}
TIME_CAP = {"quick": 150, "thorough": 1500}
RULE = ("seeded heaps with 1-3 hashmaps and aliased key arrays x 1-3 scheduled clients x 3-40 single-operator statements (set, get, deleteAt, in, count, keys, "
        "createHashMapFromArray, + and array mutations of live key arrays) plus 6-36 equality-law probes on value pairs; non-trivial with at least three "
        "statements; distinct by hash of (operator sequence per client, operand kinds, root kinds, schedule)")
REAL = ["src/operators/ops_hashmap.cpp, ops_hashmap.h", "src/operators/ops_logic.cpp (isEqualTo, ==)", "src/runtime/value.h, data.h, d_array.h, d_string.h, d_scalar.h, d_code.h (equals / hash)",
        "src/runtime (executor, scheduler)", "src/parser/sqf"]
STUB = ["system_clock (virtual)", "logger (recording)", "slice length (hook)"]
ASSUMPTIONS = ["values containing nil or NaN are outside the statement: comparisons involving them end exact judging",
               "whether a hashmap copy also copies containers stored as values is not fixed by the statement: mutating such a container ends exact judging",
               "code values are compared by token text"]

MIX = {"hm_root": 0.6, "max_ops": 36, "mutating_body": 0.0, "laws": True,
       "ops": [("hset", 22), ("get", 12), ("hdel", 8), ("hin", 6), ("count", 4), ("keys", 5), ("fromArray", 5), ("hcopy", 5),
               ("pushBack", 5), ("set", 4), ("deleteAt", 2), ("resize", 1), ("reverse", 1), ("isEqualTo", 4), ("selidx", 2), ("copy", 1), ("str", 1)]}


def generate(rng, tier, run):
    mix = dict(MIX)
    mix["max_ops"] = rng.choice([8, 16, 36])
    return hc.gen_case(rng, PROP, mix)


judge = hc.judge
signature = hc.signature
stats = hc.stats
sample_view = hc.sample_view
shrink_candidates = hc.shrink_candidates
