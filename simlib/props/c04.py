"""C04 — runtime errors are never silent, never skipped over, never leak into later code.

Sub-engine A (model based): programs with at most one erroring operation planted in an arbitrary syntactic role
(statement, operand, condition, loop-body result, last value of a block or of the script, inside handler code,
inside a spawned script) or a natural error raised by an iteration behaviour, 0..n nested except__ handlers,
1..3 runs on the same VM; unscheduled or scheduled with slice lengths 1..13.
Sub-engine B (enumeration): for a sampled program PRE; {BODY} except__ {H}; POST the hook raises an error after
dynamic instruction k, for every k of the fault-free execution (one run per k).
"""
import copy
import hashlib

from .. import progcheck as pc
from .. import sqf, sqfgen
from ..core import Violation, crash_site

PROP = "C04"
LEVEL = "fault_enumeration"
RUNS = {"quick": 2600, "thorough": 200000}
TIME_CAP = {"quick": 160, "thorough": 1500}
RULE = ("A: one planted fault__ (any syntactic role) or natural iteration-behaviour error per program, with/without except__ handlers, "
        "1-3 runs per VM, unscheduled or sliced; B: error injected by the hook after dynamic instruction k for every k of a sampled "
        "program (all k enumerated, one run each). Non-trivial when the fault fired; distinct by hash of (role of the fault site = "
        "enclosing constructs, handler depth, schedule kind, run ordinal on the VM) for A and (program, k) for B")
REAL = ["src/runtime/runtime.cpp error unwinding", "src/runtime/frame.h behaviours", "src/operators/ops_sqfvm.cpp except__", "src/operators/ops_generic.cpp"]
STUB = ["system_clock (virtual)", "logger (recording)", "fault injection: harness operator fault__ and hook on_instruction_after"]
ASSUMPTIONS = ["fault position enumeration is complete per sampled program (engine B); programs are sampled",
               "process exit status of the CLI is not asserted"]

OPTS_A = dict(max_depth=4, max_stmts=5, budget=40, scoping=0.1, early=0.2, loops=0.35, case_mix=0.0, spawn=0.25, with_ns=0.0, fn=0.0,
              faults=1.0, natural_faults=0.5, handlers=0.6)
QUIRKS = ()
B_EVERY = 7       # every B_EVERY-th run index starts a block of engine-B runs
B_MAXK = 160


# -----------------------------------------------------------------------------------------------
# generation
# -----------------------------------------------------------------------------------------------
def generate(rng, tier, run):
    if run % B_EVERY == B_EVERY - 1:
        return generate_b(rng, run)
    return generate_a(rng)


def generate_a(rng):
    o = dict(OPTS_A)
    o["max_depth"] = rng.choice([2, 3, 4, 5])
    o["handlers"] = rng.choice([0.0, 0.6, 1.2])
    o["faults"] = rng.choice([0.0, 1.0, 2.0])
    o["natural_faults"] = rng.choice([0.0, 0.5, 1.0])
    nruns = rng.choice([1, 1, 2, 3])
    dedicated = rng.random() < 0.12      # a run that ends in a script-level behaviour error, followed by a run that looks at what it left
    if dedicated:
        nruns = max(2, nruns)
    cases = []
    for i in range(nruns):
        oo = dict(o)
        if dedicated and i == 0:
            oo.update(faults=0.0, natural_faults=0.0, early=0.0, budget=12)
            c = pc.build_case(rng, dict(oo, k0=0), PROP, scheduled_prob=0.0, co_runner_prob=0.0)
        else:
            c = pc.build_case(rng, dict(oo, k0=0), PROP, co_runner_prob=0.4)
        cases.append(c)
    # an error raised by an exit behaviour at script level, as right-hand side of an assignment to a global: the run ends there; not
    # even the instruction that would store the construct's value may still execute - the next run on this VM looks at the global
    for i in range(nruns - 1):
        a, b = cases[i], cases[i + 1]
        if not a["scheduled"] and not any(f.startswith("fault") or f.startswith("natural") for f in a["features"]) and (rng.random() < 0.6 or (dedicated and i == 0)):
            g = "gq%d" % rng.randint(10 ** 6, 10 ** 7)
            op = rng.choice(["count", "findIf", "selectc"])
            arr = ["arr", [["num", rng.randint(0, 9)]]]
            body = [["e", ["num", rng.randint(0, 5)]]]
            rhs = ["count", body, arr] if op == "count" else [op, arr, body]
            a["progs"][0].append(["gset", g, rhs])
            a["features"] = sorted(set(a["features"]) | {"natural_fault", "natural_fault_script_level"})
            b["progs"][0].insert(0, ["t", 999999, ["isNils", g]])
    # distinct marker / global ranges per run are not needed: every run is judged against a fresh model, and
    # later programs never read globals of earlier ones (unique prefixes per run below)
    case = {"engine": "A", "runs": [{"progs": c["progs"], "scheduled": c["scheduled"], "features": c["features"]} for c in cases],
            "sched": cases[0]["sched"] or pc.gen_sched(rng), "clock": cases[0]["clock"]}
    case["plan"] = plan_a(case)
    return case


def run_main_block(r):
    if not r["scheduled"]:
        return r["progs"][0]
    return [["spawn", None, ["arr", []], p] for p in r["progs"]]


def plan_a(case):
    steps = [{"do": "vm_new", "vm": "a", "conf": {"print_work": True}}]
    for i, r in enumerate(case["runs"]):
        steps.append({"do": "load", "vm": "a", "text": sqf.p_program(run_main_block(r)), "name": "run%d.sqf" % i})
        steps.append({"do": "action", "vm": "a", "name": "start"})
        steps.append({"do": "state", "vm": "a"})
        steps.append({"do": "action_if_failed", "vm": "a", "name": "abort"})
    return {"prop": PROP, "steps": steps, "sched": case["sched"], "clock": case["clock"],
            "limits": {"max_instr": 150000, "max_events": 150000, "max_visits": 300000, "watchdog_s": 30},
            "observe": {"visits": False, "slices": False}}


def generate_b(rng, run):
    """PRE; {BODY} except__ {H}; POST — no other handlers, no planted faults, no spawn."""
    def part(k0, budget, gp):
        g = sqfgen.Gen(rng, sqfgen.Opts(max_depth=3, max_stmts=4, budget=budget, scoping=0.1, early=0.2, loops=0.3, case_mix=0.0, k0=k0, uid0=k0, gprefix=gp))
        env = sqfgen.Env()
        env.scopes[0]["_this"] = sqfgen.ANY
        return g.block(env, 1, None, "skip", top=True, n=rng.randint(1, 3))
    pre = part(100, 8, "gp")
    body = [["t", 1, None]] + part(200, 14, "gb") + [["t", 2, None]]
    handler = [["t", 3, ["exc_has", 0]], ["t", 4, None]]
    post = [["t", 5, None]] + part(300, 8, "gq") + [["t", 6, None]]
    prog = pre + [["e", ["except", body, handler]]] + post
    scheduled = rng.random() < 0.4
    second = part(400, 6, "gr")
    second = [["t", 7, None]] + second + [["t", 8, None]]
    case = {"engine": "B", "prog": prog, "second": second, "scheduled": scheduled,
            "sched": pc.gen_sched(rng) if scheduled else {}, "clock": {"per_instr_ns": 1000, "per_poll_ns": 100, "idle_jump": True}}
    case["plans"] = [plan_b(case, None)]
    case["k"] = None
    return case


def plan_b(case, k):
    main = case["prog"] if not case["scheduled"] else [["spawn", None, ["arr", []], case["prog"]]]
    steps = [{"do": "vm_new", "vm": "a", "conf": {"print_work": True}},
             {"do": "load", "vm": "a", "text": sqf.p_program(main), "name": "run0.sqf"},
             {"do": "action", "vm": "a", "name": "start"},
             {"do": "state", "vm": "a"},
             {"do": "action_if_failed", "vm": "a", "name": "abort"},
             {"do": "load", "vm": "a", "text": sqf.p_program(case["second"]), "name": "run1.sqf"},
             {"do": "action", "vm": "a", "name": "start"},
             {"do": "state", "vm": "a"}]
    plan = {"prop": PROP, "steps": steps, "sched": case["sched"], "clock": case["clock"],
            "limits": {"max_instr": 50000, "max_events": 60000, "max_visits": 100000, "watchdog_s": 30},
            "observe": {"visits": False, "slices": False}}
    if k is not None:
        plan["faults"] = [{"kind": "error", "after_instr": k}]
    return plan


# -----------------------------------------------------------------------------------------------
# execution of engine B needs the fault-free run first: the worker calls expand()
# -----------------------------------------------------------------------------------------------
def expand(case, hs):
    """engine B: given the fault-free history, produce the plans for every k (called by the driver)"""
    if case.get("engine") != "B" or case.get("expanded"):
        return None
    h = hs[0]
    if "crash" in h or h.get("truncated"):
        return None
    # instructions of the first run only
    n = 0
    for e in h["events"]:
        if e[1] == "act" and e[4] == "start":
            n = e[10]
            break
    n = min(n, B_MAXK)
    c = copy.deepcopy(case)
    c["expanded"] = True
    c["ks"] = list(range(1, n + 1))
    c["plans"] = [plan_b(case, None)] + [plan_b(case, k) for k in c["ks"]]
    return c


# -----------------------------------------------------------------------------------------------
# judging
# -----------------------------------------------------------------------------------------------
def split_runs(h):
    """splits the event list at 'load' events: one segment per run"""
    segs = []
    cur = None
    for e in h["events"]:
        if e[1] == "load":
            cur = []
            segs.append(cur)
        if cur is not None:
            cur.append(e)
    return segs


def judge(case, hs):
    if case.get("engine") == "B":
        return judge_b(case, hs)
    return judge_a(case, hs)


def fault_token_pos(text, tag):
    i = text.find("fault__ %d" % tag)
    if i < 0:
        return None
    line = text.count("\n", 0, i) + 1
    col = i - (text.rfind("\n", 0, i) + 1)
    return line, col


def judge_a(case, hs):
    h = hs[0]
    if "crash" in h:
        return [pc.crash_violation(h, "crash")]
    if h.get("truncated"):
        return [Violation("termination", "not-terminated:" + str(h["truncated"]), "terminating program was cut by the step budget")]
    V = []
    segs = split_runs(h)
    for ri, r in enumerate(case["runs"]):
        if ri >= len(segs):
            V.append(Violation("runs", "run-missing", "run %d did not happen" % ri))
            break
        seg = segs[ri]
        sub = {"events": seg}
        rcase = {"progs": r["progs"], "scheduled": r["scheduled"]}
        it, unm = pc.run_model(rcase, QUIRKS)
        if unm is not None:
            continue
        failed_scripts = [s for s in it.scripts if s.error is not None]
        expect_fail = bool(failed_scripts)
        act = [e for e in seg if e[1] == "act" and e[4] == "start"]
        if not act:
            if seg and seg[0][3] != "ok":
                V.append(Violation("load", "load-failed", "program of run %d did not load: %s" % (ri, seg[0][3])))
            continue
        res = act[0][5]
        logs = [e for e in seg if e[1] == "log"]
        errlogs = [e for e in logs if e[3] <= 1]
        stack = [e for e in logs if e[4] == 60001]
        where_fault = fault_role(rcase)
        tag = "run%d" % ri if ri else "run0"
        if not expect_fail:
            # (iv) + (i)/(ii): the whole trace must equal the model's (handler entered exactly once, continues after it)
            if res == 2 or stack:
                V.append(Violation("iv", "blamed-without-error:%s:%s" % (where_fault, "later-run" if ri else "first-run"),
                                   "run %d of the VM raised no unhandled error in the model but start returned %d / stack trace logged: %s" % (ri, res, (stack or errlogs or [[0] * 9])[0][8][:300])))
                continue
            if res not in (-1, 0):
                V.append(Violation("iv", "result:%d" % res, "run %d returned %d" % (ri, res)))
            mm = pc.compare_traces(rcase, sub, it)
            if mm:
                V.append(Violation("i-ii", "trace:%s:fault@%s" % (mm[0][2].split("@")[0], where_fault), "run %d: %s" % (ri, mm[0][1])))
        else:
            # (iii): unhandled -> run reported as failed, with a stack trace naming the failing statement
            fs = failed_scripts[0]
            if res != 2:
                V.append(Violation("iii", "silent-error:fault@%s" % where_fault, "run %d: model ends script %d with unhandled error %r but start returned %d (state %s)"
                                   % (ri, fs.sid, fs.error, res, act[0][6])))
            elif not stack:
                V.append(Violation("iii", "no-stacktrace:fault@%s" % where_fault, "run %d failed without a Stacktrace diagnostic" % ri))
            else:
                text = sqf.p_program(run_main_block(r))
                if isinstance(fs.error, int):
                    # the stack trace must name the statement the error was raised at: same location as the error diagnostic
                    # itself, on the line where the failing fault__ is written (exact columns are C14's subject, not claimed)
                    pos = fault_token_pos(text, fs.error)
                    errs = [e for e in errlogs if e[4] == 60043 and ("[FAULTOP] %d" % fs.error) in e[8]]
                    if errs and (stack[0][6], stack[0][7]) != (errs[0][6], errs[0][7]):
                        V.append(Violation("iii", "stacktrace-location:fault@%s" % where_fault, "run %d: error raised at L%d C%d, stack trace names L%d C%d"
                                           % (ri, errs[0][6], errs[0][7], stack[0][6], stack[0][7])))
                    elif pos and stack[0][6] != pos[0]:
                        V.append(Violation("iii", "stacktrace-line:fault@%s" % where_fault, "run %d: stack trace names line %d, the failing fault__ is on line %d"
                                           % (ri, stack[0][6], pos[0])))
            # (i): the faulted script's markers are exactly the model's; other scripts may have been cut short
            failed_sids = set(s.sid for s in failed_scripts)
            mm = pc.compare_traces(rcase, sub, it, prefix_ok=True)
            mm2 = [m for m in mm if m[0] in failed_sids or m[2].split("@")[0] in ("value", "order", "extra")]
            if mm2:
                V.append(Violation("i", "trace:%s:fault@%s" % (mm2[0][2].split("@")[0], where_fault), "run %d: %s" % (ri, mm2[0][1])))
            else:
                # the faulted script must not stop early either (markers before the fault all present)
                tr, _ = pc.observed_traces(sub)
                for s in failed_scripts[:1]:
                    obs = None
                    for ctx, o in tr.items():
                        if o and s.trace and o[0][0] == s.trace[0][0]:
                            obs = o
                    if s.trace and (obs is None or len(obs) < len(s.trace)):
                        V.append(Violation("i", "trace:missing:fault@%s" % where_fault, "run %d: faulted script %d shows %d of %d markers expected before the error"
                                           % (ri, s.sid, 0 if obs is None else len(obs), len(s.trace))))
        # (v) state after the run (after abort when failed)
        st = [e for e in seg if e[1] == "state"]
        if st and st[0][5] != 0:
            V.append(Violation("v", "error-flag-leaks", "run %d: the runtime error flag is still set after execute returned" % ri))
    out = {}
    for v in V:
        out.setdefault(v.key, v)
    return list(out.values())


def fault_role(rcase):
    """constructs enclosing the planted fault (innermost two), or 'natural'/'none'"""
    def find(node, stack=()):
        if isinstance(node, list):
            if node and isinstance(node[0], str):
                if node[0] == "fault":
                    return list(stack)
                st = stack
                if node[0] in pc.CONSTRUCTS or node[0] in ("exitWith", "spawn", "arr", "t"):
                    st = stack + (node[0],)
                for x in node[1:]:
                    r = find(x, st)
                    if r is not None:
                        return r
            else:
                for x in node:
                    r = find(x, stack)
                    if r is not None:
                        return r
        return None
    for p in rcase["progs"]:
        r = find(p)
        if r is not None:
            r = [x for x in r if x != "t"]
            return "/".join(r[-2:]) if r else "top"
    return "none-or-natural"


def judge_b(case, hs):
    V = []
    h0 = hs[0]
    if "crash" in h0:
        return [pc.crash_violation(h0, "crash")]
    if h0.get("truncated"):
        return [Violation("termination", "not-terminated:" + str(h0["truncated"]), "terminating program was cut by the step budget (fault-free run)")]
    if not case.get("expanded"):
        return []
    segs0 = split_runs(h0)
    tr0 = [e for e in segs0[0] if e[1] == "t"]
    base = [pc.split_marker(e[4]) for e in tr0]
    instr_of = {}
    for e in tr0:
        k, _ = pc.split_marker(e[4])
        instr_of.setdefault(k, e[5])
    second0 = [pc.split_marker(e[4]) for e in segs0[1] if e[1] == "t"] if len(segs0) > 1 else []
    body_in = instr_of.get(1)
    body_out = instr_of.get(2)
    post0 = [m for m in base if m[0] in (5, 6) or 300 <= (m[0] or 0) < 400]
    for idx, k in enumerate(case["ks"]):
        h = hs[idx + 1]
        if "crash" in h:
            V.append(pc.crash_violation(h, "crash"))
            continue
        if h.get("truncated"):
            V.append(Violation("termination", "B:not-terminated:" + str(h["truncated"]), "k=%d: the run did not end after the injected error" % k))
            continue
        segs = split_runs(h)
        seg = segs[0]
        fired = [e for e in seg if e[1] == "fault"]
        if not fired:
            continue
        fseq = fired[0][0]
        tr = [e for e in seg if e[1] == "t"]
        before = [pc.split_marker(e[4]) for e in tr if e[0] < fseq]
        after = [pc.split_marker(e[4]) for e in tr if e[0] > fseq]
        act = [e for e in seg if e[1] == "act" and e[4] == "start"]
        res = act[0][5] if act else None
        stack = [e for e in seg if e[1] == "log" and e[4] == 60001]
        # G2: what ran before the fault is the fault-free prefix
        if before != base[:len(before)]:
            V.append(Violation("G2", "B:prefix-differs", "k=%d: markers before the injected error differ from the fault-free run" % k))
            continue
        inside = body_in is not None and body_out is not None and body_in <= k < body_out
        clearly_outside = body_in is None or k < body_in - 6 or (body_out is not None and k > body_out + 6) or (body_out is None and k < body_in - 6)
        handler_ms = [m for m in after if m[0] in (3, 4)]
        if inside:
            if [m[0] for m in handler_ms] != [3, 4]:
                V.append(Violation("ii", "B:handler-not-entered-once", "k=%d inside the except__ block: handler markers seen %r, run result %r; markers after the fault: %r" % (k, [m[0] for m in handler_ms], res, after[:6])))
                continue
            rest = [m for m in after if m[0] not in (3, 4)]
            if rest != post0:
                V.append(Violation("ii", "B:does-not-continue-after-handler", "k=%d: after the handler expected %r got %r" % (k, post0[:6], rest[:6])))
                continue
            if res == 2 or stack:
                V.append(Violation("iv", "B:handled-error-reported-as-failure", "k=%d: handled error but start returned %r" % (k, res)))
        elif clearly_outside:
            if after:
                V.append(Violation("i", "B:statement-after-unhandled-error", "k=%d outside any handler: markers %r executed after the error" % (k, after[:6])))
                continue
            if res != 2:
                V.append(Violation("iii", "B:silent-error", "k=%d outside any handler: start returned %r" % (k, res)))
                continue
            if not stack:
                V.append(Violation("iii", "B:no-stacktrace", "k=%d: failed run without Stacktrace" % k))
            else:
                # location of the stack trace = location of the instruction the error was raised at
                loc = [e for e in seg if e[1] == "log" and e[4] == 60043 and "INJECTED" in e[8]]
                if loc and (loc[0][6], loc[0][7]) != (stack[0][6], stack[0][7]):
                    V.append(Violation("iii", "B:stacktrace-location", "k=%d: error at L%d C%d, stack trace names L%d C%d" % (k, loc[0][6], loc[0][7], stack[0][6], stack[0][7])))
        else:
            # grey zone around the construct's boundaries: only the exclusive-or is judged
            handled = [m[0] for m in handler_ms] == [3, 4]
            if handled == (res == 2):
                V.append(Violation("G1", "B:neither-handled-nor-failed", "k=%d: handler entered=%s but start returned %r" % (k, handled, res)))
        # G4: the next run on this VM behaves like on a fresh one
        if len(segs) > 1:
            sec = [pc.split_marker(e[4]) for e in segs[1] if e[1] == "t"]
            act2 = [e for e in segs[1] if e[1] == "act" and e[4] == "start"]
            if sec != second0 or (act2 and act2[0][5] == 2):
                V.append(Violation("v", "B:leaks-into-next-run", "k=%d: the following run gave %r (result %r), on its own it gives %r" % (k, sec[:5], act2[0][5] if act2 else None, second0[:5])))
    out = {}
    for v in V:
        out.setdefault(v.key, v)
    return list(out.values())


def signature(case, hs):
    if case.get("engine") == "B":
        if not case.get("expanded"):
            return None
        return hashlib.sha256(repr((case["prog"], case["scheduled"])).encode()).hexdigest()[:16]
    h = hs[0]
    if "crash" in h:
        return None
    fired = h.get("counters", {}).get("faults_fired", {})
    nat = any(e[1] == "log" and e[3] <= 1 for e in h["events"])
    if not fired and not nat:
        return None
    roles = []
    for ri, r in enumerate(case["runs"]):
        roles.append((fault_role({"progs": r["progs"]}), r["scheduled"], "except" in r.get("features", []), ri))
    return hashlib.sha256(repr(roles).encode()).hexdigest()[:16]


def stats(case, hs):
    if case.get("engine") == "B":
        fired = 0
        for h in hs[1:]:
            if "crash" not in h:
                fired += h.get("counters", {}).get("faults_fired", {}).get("error", 0)
        return {"engineB_programs": 1 if case.get("expanded") else 0, "engineB_runs": max(0, len(hs) - 1), "executions": len(hs), "faults_fired": {"hook_error": fired}}
    h = hs[0]
    if "crash" in h:
        return {"crashes": 1}
    c = h.get("counters", {})
    feats = {}
    for r in case["runs"]:
        for f in r.get("features", []):
            feats[f] = feats.get(f, 0) + 1
    return {"instr": c.get("instr", 0), "engineA_runs": 1, "executions": 1, "vm_runs": len(case["runs"]), "features": feats,
            "faults_fired": dict(c.get("faults_fired", {}))}


def sample_view(case):
    if case.get("engine") == "B":
        return {"engine": "B", "scheduled": case["scheduled"], "sqf": sqf.p_program(case["prog"])[:1500]}
    return {"engine": "A", "runs": [sqf.p_program(run_main_block(r))[:800] for r in case["runs"]], "sched": case["sched"]}


def shrink_candidates(case):
    if case.get("engine") == "B":
        # keep a single k (the judge reports the first failing one)
        if case.get("expanded") and len(case["ks"]) > 1:
            for k in case["ks"]:
                c = copy.deepcopy(case)
                c["ks"] = [k]
                c["plans"] = [plan_b(case, None), plan_b(case, k)]
                yield c
        return
    # drop runs
    if len(case["runs"]) > 1:
        for i in range(len(case["runs"]) - 1, -1, -1):
            c = copy.deepcopy(case)
            del c["runs"][i]
            c["plan"] = plan_a(c)
            yield c
    for ri, r in enumerate(case["runs"]):
        sub = {"progs": r["progs"], "scheduled": r["scheduled"], "sched": case["sched"]}

        def rebuild(cc, ri=ri):
            c = copy.deepcopy(case)
            c["runs"][ri]["progs"] = cc["progs"]
            c["runs"][ri]["scheduled"] = cc["scheduled"]
            c["sched"] = cc.get("sched", c["sched"]) or c["sched"]
            c["plan"] = plan_a(c)
            return c
        for c in pc.shrink_candidates_progs(sub, rebuild):
            yield c
