"""C02 — control structures execute the statements SQF semantics prescribe.

Every generated program is executed unscheduled, or as one of 1..3 scheduled scripts under seeded
slice lengths (so every frame behaviour is interrupted and resumed at arbitrary instruction
boundaries); the per-script marker trace must equal the reference interpreter's."""
from .. import progcheck as pc
from ..core import Violation

PROP = "C02"
LEVEL = "exploration"
RUNS = {"quick": 8000, "thorough": 400000}
TIME_CAP = {"quick": 150, "thorough": 1500}
RULE = ("typed random programs over if/exitWith/while/for/forEach/count/select/apply/findIf/switch/call/try/scopeName-breakOut/"
        "lazy and-or, run unscheduled or as one of 1-3 scheduled scripts under seeded slice lengths; non-trivial when constructs "
        "nest at least two deep and, if scheduled, at least one slice boundary fell inside a construct; distinct by hash of "
        "(construct nesting shape, schedule kind, slice cut signature)")
REAL = ["src/runtime (executor, frames, contexts)", "src/operators/ops_generic.cpp, ops_logic.cpp", "src/parser/sqf", "src/parser/preprocessor"]
STUB = ["system_clock (virtual)", "logger (recording)", "slice length (hook)"]
ASSUMPTIONS = ["programs are type-correct and terminating by construction; the value of a while construct is not compared",
               "the reference interpreter encodes DESIGN.md appendix B"]

OPTS = dict(max_depth=4, max_stmts=5, budget=45, scoping=0.1, early=0.35, loops=0.35, case_mix=0.0, spawn=0.0, with_ns=0.0, fn=0.0)
QUIRKS = ()


def generate(rng, tier, run):
    o = dict(OPTS)
    # swarm: vary shape knobs per run
    o["max_depth"] = rng.choice([2, 3, 4, 4, 5, 6])
    o["max_stmts"] = rng.choice([3, 5, 7])
    o["budget"] = rng.choice([20, 45, 80])
    o["early"] = rng.choice([0.1, 0.35, 0.6])
    o["loops"] = rng.choice([0.15, 0.35, 0.5])
    return pc.build_case(rng, o, PROP)


def judge(case, hs):
    h = hs[0]
    if "crash" in h:
        return [pc.crash_violation(h, "crash")]
    V = []
    if h.get("truncated"):
        return [Violation("termination", "not-terminated:" + str(h["truncated"]), "terminating program was cut by the step budget")]
    it, unm = pc.run_model(case, QUIRKS)
    tr, logs = pc.observed_traces(h)
    for e in logs:
        if e[3] <= 1:
            V.append(Violation("no-error", "unexpected-error:%d" % e[4], "error-level diagnostic in an error-free program: %s" % e[8][:300]))
            break
    if unm is None:
        for sid, msg, cls in pc.compare_traces(case, h, it)[:1]:
            V.append(Violation("trace", "trace:" + cls, msg))
    return V


signature = pc.signature


def stats(case, hs):
    out = pc.stats(case, hs)
    it, unm = pc.run_model(case, QUIRKS)
    out["model_constructs_executed"] = dict(it.cov)
    if unm:
        out["unmodelled_runs"] = 1
    return out


def sample_view(case):
    from .. import sqf
    return {"scheduled": case["scheduled"], "sched": case["sched"], "sqf": sqf.p_program(pc.main_block(case))[:2500]}


def _rebuild(c):
    c["plan"] = pc.build_plan(c)
    return c


def shrink_candidates(case):
    return pc.shrink_candidates_progs(case, _rebuild)
