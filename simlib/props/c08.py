"""C08 — arrays are shared references, copies are independent, and nothing becomes cyclic.

A heap of aliased arrays and hashmaps in globals; 1-3 scheduled clients issue single-operator statements under seeded
slice lengths; a reference heap with object identity replays the recorded operator events and compares every result
and an atomic dump of all roots after every statement. See simlib/heapcheck.py."""
from .. import heapcheck as hc

PROP = "C08"
LEVEL = "exploration"
RUNS = {"quick": 6000, "thorough": 300000}
TIME_CAP = {"quick": 150, "thorough": 1500}
RULE = ("seeded heaps of 3-5 aliased arrays/hashmaps x 1-3 scheduled clients x 3-40 single-operator statements (set, pushBack, pushBackUnique, "
        "append, deleteAt, deleteRange, resize, reverse, sort, +a, a+b, a-b, select range/index/filter, apply, hashmap set) with in-range, "
        "negative and too-large indices and self-insertion attempts directly and through intermediate arrays and hashmaps, under seeded "
        "slice lengths; non-trivial with at least three statements; distinct by hash of (operator sequence per client, operand kinds, root kinds, schedule)")
REAL = ["src/operators/ops_generic.cpp (array operators)", "src/operators/ops_hashmap.cpp", "src/runtime/d_array.h", "src/runtime (executor, scheduler, frames)", "src/parser/sqf"]
STUB = ["system_clock (virtual)", "logger (recording)", "slice length (hook)"]
ASSUMPTIONS = ["outcomes the statement does not fix end exact judging for the run (crash, hang and escaping exceptions are still judged): fractional indices, "
               "deleteRange arguments on which the 'count' and 'last index' readings differ, sorting arrays of arrays, array difference over nil elements, "
               "iteration over an array that its own body or another client changes, mutation of containers that a hashmap copy / a hashmap nested in an "
               "array copy shares with its original",
               "binary +, -, select and apply are modelled as shallow (elements are shared), unary + on arrays as deep for nested arrays"]

MIX = {"hm_root": 0.25, "max_ops": 36, "mutating_body": 0.08, "laws": False, "lookalike": 0.05,
       "ops": [("set", 10), ("pushBack", 10), ("pushBackUnique", 6), ("append", 7), ("deleteAt", 6), ("deleteRange", 5), ("resize", 5), ("reverse", 3), ("sort", 4),
               ("copy", 5), ("plus", 4), ("minus", 3), ("selrange", 3), ("selidx", 6), ("apply", 4), ("filter", 3), ("count", 2), ("isEqualTo", 2), ("str", 2),
               ("find", 2), ("in", 1), ("hset", 6), ("get", 2), ("hcopy", 1), ("fromArray", 1)]}


def generate(rng, tier, run):
    mix = dict(MIX)
    mix["max_ops"] = rng.choice([8, 16, 36])
    mix["hm_root"] = rng.choice([0.0, 0.25, 0.5])
    return hc.gen_case(rng, PROP, mix)


judge = hc.judge
signature = hc.signature
stats = hc.stats
sample_view = hc.sample_view
shrink_candidates = hc.shrink_candidates
