"""C20 — runs are deterministic and VM instances are isolated from each other.

One observed program P (a generated program plus probes of everything that could be process-wide: number formatting,
preprocessor counter and defines, config, the namespaces, first use of types) is executed in four arrangements, each in
a fresh simulator process:
  A   alone, in the first VM of the process                                   (twice: determinism)
  B   in a fresh VM created after 1-3 disturbers Q ran in their own VMs (kept alive or destroyed)
  B'  in a VM created BEFORE the disturbers, run after them
  C   beside a disturber on a second logical thread: two VMs, two real threads, the seeded baton scheduler decides at
      every scheduler visit (slice length 1..3: every few instructions) which thread runs
P's output (markers, diagnostics with code and text, result of the run) must be byte-identical in all of them."""
import copy
import hashlib

from ..core import Violation, crash_site
from .. import sqf, sqfgen

PROP = "C20"
LEVEL = "exploration"
RUNS = {"quick": 1200, "thorough": 60000}
TIME_CAP = {"quick": 150, "thorough": 1500}
RULE = ("generated observed program P with 6-12 probes of process-wide candidates x 1-3 generated disturbers Q (toFixed, __COUNTER__, defines, config loads, "
        "writes to every namespace with P's variable names, first use of types) x 5 executions (alone twice, after Q in a later VM, after Q in an "
        "earlier VM, beside Q on a second thread under a seeded baton schedule); every case is non-trivial; distinct by hash of (P shape, disturber "
        "kinds, kept/destroyed, schedule)")
REAL = ["src/runtime (runtime instances, executor)", "src/operators (all registered operators)", "src/parser/preprocessor (__COUNTER__, defines)", "src/parser/config + confighost",
        "src/runtime/d_scalar.cpp (number formatting)", "two runtime instances on two real threads (one running at a time)"]
STUB = ["system_clock (virtual, shared by the instances)", "logger (recording)", "thread scheduling (baton: the seed decides who runs after every scheduler visit)", "slice length (hook, constant per case)"]
ASSUMPTIONS = ["P avoids the time and random operators and sleep, as the statement allows",
               "the baton scheduler runs one thread at a time: data races on unsynchronised process-wide state (first-use type registration) are not observable here, "
               "only logical interference is"]

# two executions of one plan that differ are a violation of this very property (not a fault of the harness): see simlib/core.py
NONDET_KEY = "not-deterministic:re-execution"

P_OPTS = dict(max_depth=3, max_stmts=4, budget=25, scoping=0.5, early=0.2, loops=0.3, case_mix=0.3, spawn=0.0, with_ns=0.5, fn=0.4)

# probes: (tag, SQF expression) - read-only observations of candidates for process-wide state
PROBES = [
    ("fmt", '[str 1.23456, str (10 / 3), format ["%1|%2", 0.5, 1000000], str [0.1, 2.5], 1.5 toFixed 3]'),
    ("cnt", 'preprocess__ "__COUNTER__ __COUNTER__"'),
    ("def", 'preprocess__ "#ifdef QDEF\nyes QDEF\n#else\nno\n#endif"'),
    ("cfg", '[isClass (configFile >> "QCfg"), getNumber (configFile >> "QCfg" >> "x"), isClass (configFile >> "PCfg")]'),
    ("glob", '[isNil "qg1", missionNamespace getVariable ["qg2", "unset"], uiNamespace getVariable ["qg3", "unset"], profileNamespace getVariable ["qg4", "unset"], '
             'parsingNamespace getVariable ["qg5", "unset"], isNil "gv1", isNil "gv2"]'),
    ("types", '[typeName createHashMap, typeName (parseText "a"), typeName sideLogic, typeName configFile, typeName {}, typeName scriptNull]'),
    ("vars", 'count (allVariables uiNamespace)'),
    ("cmp", '[0 isEqualTo -0, "a" == "A", [1, [2]] isEqualTo [1, [2]], createHashMapFromArray [[1, 2]] get 1]'),
    ("sup", 'count (supportInfo "b:select*")'),
    ("veh", 'call { private _v = "Car" createVehicle [1, 2, 3]; private _g = createGroup west; [isNil "_v", typeOf _v, str _v, str _g, getPos _v, side _g] }'),
]
# what P needs for its own world probes (another class precedes CfgVehicles, so that handles cached by another instance do not fit)
P_CONFIG = 'configparse__ "class CfgPatches { class PP { units[] = {}; }; }; class CfgVehicles { class Car { scope = 2; }; };";' 
# disturbers: statements that write candidates for process-wide state
DISTURB = [
    ("toFixed", "toFixed 2;"),
    ("toFixed", "toFixed 0;"),
    ("counter", 'preprocess__ "__COUNTER__ __COUNTER__ __COUNTER__";'),
    ("define", 'preprocess__ "#define QDEF 7\nQDEF";'),
    ("config", 'configparse__ "class QCfg { x = 41; class Sub {}; }; class PCfg { y = 1; };";'),
    ("globals", 'qg1 = 5; missionNamespace setVariable ["qg2", 1]; uiNamespace setVariable ["qg3", 2]; profileNamespace setVariable ["qg4", 3]; parsingNamespace setVariable ["qg5", 4]; gv1 = "Q"; gv2 = [1];'),
    ("types", 'private _h = createHashMap; private _t = parseText "x"; private _s = sideLogic; private _c = configFile; private _l = scriptNull;'),
    ("uivars", '{ uiNamespace setVariable [_x, 1] } forEach ["q_a", "q_b", "q_c"];'),
    ("with", 'with uiNamespace do { gv1 = 3; qg3 = 9; };'),
    ("vehicles", 'configparse__ "class CfgVehicles { class Car { scope = 2; }; class Tank { scope = 2; }; };"; private _qv = "Car" createVehicle [0, 0, 0]; private _qt = "Tank" createVehicle [5, 5, 0]; '
                 'private _qg = createGroup east; private _qh = createGroup west;'),
]


def gen_program(rng, k0, opts_kw):
    kw = dict(opts_kw)
    kw["k0"] = k0
    kw["gprefix"] = "gv"
    g = sqfgen.Gen(rng, sqfgen.Opts(**kw))
    return sqf.p_program(g.program())


def generate(rng, tier, run):
    o = dict(P_OPTS)
    o["budget"] = rng.choice([8, 25, 40])
    ptext = gen_program(rng, 0, o)
    probes = rng.sample(PROBES, rng.randint(5, len(PROBES)))
    if not any(t == "fmt" for t, _ in probes) and rng.random() < 0.7:
        probes.append(PROBES[0])
    # probes before and after the generated part (so that interference at any time of P's run shows)
    pre = ["{ t__ [\"PR\", %s, 0, %s] } except__ { t__ [\"PR\", %s, 0, \"E\"] };" % (sqf.sqf_str(t), e, sqf.sqf_str(t)) for t, e in probes]
    post = ["{ t__ [\"PR\", %s, 1, %s] } except__ { t__ [\"PR\", %s, 1, \"E\"] };" % (sqf.sqf_str(t), e, sqf.sqf_str(t)) for t, e in probes]
    mid = "\n".join(rng.sample(pre, min(3, len(pre))))
    P = (P_CONFIG + "\n" if any(t == "veh" for t, _ in probes) else "") + "\n".join(pre) + "\n" + ptext + "\n" + "\n".join(post)
    nq = rng.randint(1, 3)
    Qs = []
    for i in range(nq):
        ds = rng.sample(DISTURB, rng.randint(1, 5))
        qo = dict(P_OPTS)
        qo["budget"] = rng.choice([5, 15, 30])
        body = gen_program(rng, 5000 + 1000 * i, qo) if rng.random() < 0.7 else ""
        lines = [d[1] for d in ds]
        rng.shuffle(lines)
        cut = rng.randint(0, len(lines))
        Qs.append({"kinds": sorted(set(d[0] for d in ds)), "text": "\n".join(lines[:cut]) + "\n" + body + "\n" + "\n".join(lines[cut:]), "keep": rng.random() < 0.5})
    case = {"P": P, "Q": Qs, "slice": rng.choice([1, 1, 2, 3, 150]), "yields": [rng.choice([-1, -1, 0, 1, 1]) for _ in range(rng.randint(10, 400))]}
    case["plans"] = plans_of(case)
    return case


def base_plan(steps, case):
    return {"prop": PROP, "steps": steps, "sched": {"slice_default": case["slice"]}, "clock": {"per_instr_ns": 1000, "per_poll_ns": 100, "idle_jump": True},
            "limits": {"max_instr": 300000, "max_events": 150000, "watchdog_s": 30}, "observe": {"visits": False, "slices": False}}


def run_steps(vm, text, name):
    return [{"do": "load", "vm": vm, "text": text, "name": name}, {"do": "action", "vm": vm, "name": "start"}, {"do": "action_if_failed", "vm": vm, "name": "abort"}]


def plans_of(case):
    conf = {"print_work": False}
    A = [{"do": "vm_new", "vm": "p", "conf": conf}] + run_steps("p", case["P"], "p.sqf") + [{"do": "state", "vm": "p"}]
    B = []
    for i, q in enumerate(case["Q"]):
        B += [{"do": "vm_new", "vm": "q%d" % i, "conf": conf}] + run_steps("q%d" % i, q["text"], "q%d.sqf" % i)
        if not q["keep"]:
            B.append({"do": "vm_del", "vm": "q%d" % i})
    B += [{"do": "vm_new", "vm": "p", "conf": conf}] + run_steps("p", case["P"], "p.sqf") + [{"do": "state", "vm": "p"}]
    B2 = [{"do": "vm_new", "vm": "p", "conf": conf}]
    for i, q in enumerate(case["Q"]):
        B2 += [{"do": "vm_new", "vm": "q%d" % i, "conf": conf}] + run_steps("q%d" % i, q["text"], "q%d.sqf" % i)
        if not q["keep"]:
            B2.append({"do": "vm_del", "vm": "q%d" % i})
    B2 += run_steps("p", case["P"], "p.sqf") + [{"do": "state", "vm": "p"}]
    q0 = case["Q"][0]
    C = [{"do": "vm_new", "vm": "p", "conf": conf}, {"do": "vm_new", "vm": "q0", "conf": conf},
         {"do": "load", "vm": "p", "text": case["P"], "name": "p.sqf"}, {"do": "load", "vm": "q0", "text": q0["text"], "name": "q0.sqf"},
         {"do": "par", "threads": [[{"do": "action", "vm": "p", "name": "start"}, {"do": "action_if_failed", "vm": "p", "name": "abort"}],
                                   [{"do": "action", "vm": "q0", "name": "start"}, {"do": "action_if_failed", "vm": "q0", "name": "abort"}]],
          "yields": case["yields"], "max_yields": 1000000},
         {"do": "state", "vm": "p"}]
    return [base_plan(A, case), base_plan(copy.deepcopy(A), case), base_plan(B, case), base_plan(B2, case), base_plan(C, case)]


ARR = ["alone", "alone-again", "after-in-later-vm", "after-in-earlier-vm", "beside-on-thread"]


def output_of(h, vm="p"):
    """what a user of instance P sees: markers, diagnostics (level, code, text), result and state of its run"""
    out = []
    for e in h["events"]:
        if e[1] == "t" and e[2] == vm:
            out.append(("t", e[4]))
        elif e[1] == "log" and e[2] == vm:
            out.append(("log", e[3], e[4], e[8]))
        elif e[1] == "act" and e[3] == vm:
            out.append(("act", e[4], e[5], e[8], e[12]))
        elif e[1] == "state" and e[2] == vm:
            out.append(("state", e[3], e[5]))
    return out


def judge(case, hs):
    V = []
    for i, h in enumerate(hs):
        if "crash" in h:
            site = crash_site(h["crash"])
            return [Violation("no-crash", "crash:%s:%s" % (site.split("|")[0], ARR[i]), h["crash"].get("stderr", "")[-2000:])]
        if h.get("truncated"):
            return [Violation("terminates", "hang:%s" % ARR[i], "arrangement %s did not finish within the budget" % ARR[i])]
    ref = output_of(hs[0])
    qkinds = sorted(set(k for q in case["Q"] for k in q["kinds"]))
    for i in range(1, len(hs)):
        out = output_of(hs[i])
        if out == ref:
            continue
        # first difference
        j = 0
        while j < min(len(out), len(ref)) and out[j] == ref[j]:
            j += 1
        a = ref[j] if j < len(ref) else None
        b = out[j] if j < len(out) else None
        tag = "output"
        for x in (a, b):
            if x and x[0] == "t" and x[1].startswith('["PR","'):
                tag = x[1].split('"')[3]
                break
        if i == 1:
            V.append(Violation("deterministic", "not-deterministic:%s" % tag, "the same program in the same fresh process gave different outputs: %r vs %r" % (a, b)))
        else:
            cause = ""
            if tag == "fmt":
                # (only the first disturber runs beside P)
                ks = case["Q"][0]["kinds"] if i == 4 else qkinds
                cause = ":q-uses-toFixed" if "toFixed" in ks else ":q-without-toFixed"
            V.append(Violation("isolated", "isolation:%s:%s%s" % (ARR[i], tag, cause),
                               "P's output differs from its output alone when it runs %s (disturber kinds %r): alone %r, here %r" % (ARR[i], qkinds, a, b)))
    out = {}
    for v in V:
        out.setdefault(v.key, v)
    return list(out.values())


def signature(case, hs):
    if any("crash" in h for h in hs):
        return None
    m = hashlib.sha256()
    m.update(repr([q["kinds"] for q in case["Q"]]).encode())
    m.update(repr([q["keep"] for q in case["Q"]]).encode())
    m.update(repr((case["slice"], len(case["yields"]), len(case["P"]))).encode())
    m.update(hashlib.sha256(case["P"].encode()).digest())
    return m.hexdigest()[:16]


def stats(case, hs):
    sw = 0
    for e in hs[4].get("events", []) if "events" in hs[4] else []:
        if e[1] == "sw":
            sw += 1
    kinds = {}
    for q in case["Q"]:
        for k in q["kinds"]:
            kinds[k] = kinds.get(k, 0) + 1
    instr = sum(h.get("counters", {}).get("instr", 0) for h in hs if isinstance(h, dict))
    return {"executions": len(hs), "instr": instr, "disturbers": len(case["Q"]), "disturber_kinds": kinds, "thread_switches": sw,
            "markers_P": sum(1 for e in hs[0].get("events", []) if e[1] == "t") if "events" in hs[0] else 0}


def sample_view(case):
    return {"P": case["P"][:1500], "Q": [{"kinds": q["kinds"], "keep": q["keep"], "text": q["text"][:500]} for q in case["Q"]], "slice": case["slice"], "yields": case["yields"][:40]}


def shrink_candidates(case):
    def rebuilt(c):
        c["plans"] = plans_of(c)
        return c
    for i in range(len(case["Q"]) - 1, -1, -1):
        if len(case["Q"]) > 1:
            c = copy.deepcopy(case)
            del c["Q"][i]
            yield rebuilt(c)
    for i, q in enumerate(case["Q"]):
        lines = q["text"].split("\n")
        for j in range(len(lines) - 1, -1, -1):
            if len(lines) > 1:
                c = copy.deepcopy(case)
                c["Q"][i]["text"] = "\n".join(lines[:j] + lines[j + 1:])
                yield rebuilt(c)
    plines = case["P"].split("\n")
    for j in range(len(plines) - 1, -1, -1):
        if len(plines) > 1:
            c = copy.deepcopy(case)
            c["P"] = "\n".join(plines[:j] + plines[j + 1:])
            yield rebuilt(c)
    if len(case["yields"]) > 1:
        c = copy.deepcopy(case)
        c["yields"] = case["yields"][:len(case["yields"]) // 2]
        yield rebuilt(c)
