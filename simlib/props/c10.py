"""C10 — front ends are total: any input yields a result or a diagnostic, never a crash.

Claimed for the part of the quantifier that is a fault model: stored source bytes cut or damaged at an arbitrary
point, and files that include themselves or each other. For each sampled well-formed input (SQF from the program
generator's printer, config text, preprocessor input) the check ENUMERATES every prefix and every single-token
deletion / duplication / replacement by an opener, and delivers each damaged text through one entry point:
preprocessor, SQF parser, config parser, the operators compile / preprocess__ / configparse__ from a running
script, sqfvm_call / sqfvm_load_config. Include cycles and cut include files go through an on-disk scratch tree.
"""
import base64
import copy
import hashlib
import os
import re
import shutil

from ..core import Violation, crash_site
from .. import sqf, sqfgen

PROP = "C10"
LEVEL = "fault_enumeration"
RUNS = {"quick": 1400, "thorough": 30000}
TIME_CAP = {"quick": 170, "thorough": 1500}
RULE = ("per sampled well-formed input: every prefix (exhaustive), every single-token deletion, duplication and replacement by an "
        "opener (\" ' /* // ( [ { #), nesting depth 1..200, self/mutual macro recursion and self/mutual #include; each damaged text is "
        "delivered through one seeded entry point. A damaged input is non-trivial when it differs from every accepted input of the "
        "corpus; distinct by hash of (entry point, damage kind, token class at the damage point)")
REAL = ["src/parser/preprocessor/default.cpp", "src/parser/sqf (tokenizer, bison parser)", "src/parser/config", "src/operators compile/preprocess__/configparse__",
        "src/export/sqfvm.cpp", "src/fileio/default.cpp (include resolution over a real scratch directory)"]
STUB = ["logger (recording)", "system_clock (virtual)"]
ASSUMPTIONS = ["'time proportional to the input' is judged as: returns within the step/watchdog budget (10 s for inputs < 2 KiB)",
               "arbitrary byte strings beyond damaged well-formed inputs are sampled only lightly (random bytes class)",
               "nesting depth is capped at 200 so that stack exhaustion can only come from unbounded recursion"]

OPENERS = ['"', "'", "/*", "//", "(", "[", "{", "#", "*/", "\\", "\n#define A", "#include \"", "##", "\x00"]
TOKEN_RE = re.compile(r'"[^"]*"|\'[^\']*\'|//|/\*|\*/|#\w+|\w+|\s+|.', re.S)
ENTRIES = ["preprocess", "sqf", "config", "op_compile", "op_preprocess", "op_configparse", "api_call_s", "api_call_p", "api_load_config", "sqf_check", "config_check"]
SCRATCH = "/var/tmp/verif-c10"


# ---------------------------------------------------------------------------------------------
# corpus
# ---------------------------------------------------------------------------------------------
def corpus_sqf(rng):
    g = sqfgen.Gen(rng, sqfgen.Opts(max_depth=3, max_stmts=4, budget=18, case_mix=0.3, early=0.3, loops=0.3, scoping=0.3))
    prog = g.program()
    txt = sqf.p_program(prog)
    # layout variety: newlines, comments, hex and exponent literals
    txt = txt.replace("; ", ";\n", rng.randint(0, 6))
    extras = ["// a comment\n", "/* block\n comment */", "_h = 0x1F + $A0 + 1e3 + .5;\n", "_s = 'single ''quoted''';\n", "private _q = \"a\"\"b\";\n"]
    for e in rng.sample(extras, rng.randint(0, 3)):
        pos = rng.choice([0, len(txt)])
        txt = txt[:pos] + e + txt[pos:]
    return txt[:900]


def corpus_config(rng):
    names = ["A", "B", "C", "Base", "Sub"]
    out = []

    def cls(depth):
        n = rng.choice(names)
        parent = rng.choice(["", "", " : " + rng.choice(names)])
        body = []
        for _ in range(rng.randint(0, 4)):
            r = rng.random()
            if r < 0.3:
                body.append("%s = %d;" % (rng.choice(["v", "w", "x"]), rng.randint(-5, 99)))
            elif r < 0.5:
                body.append('%s = "%s";' % (rng.choice(["s", "t"]), rng.choice(["abc", "x y", 'q""t', ""])))
            elif r < 0.7:
                body.append("%s[] = {%s};" % (rng.choice(["arr", "lst"]), ", ".join(rng.choice(["1", "2.5", '"a"', "{1,2}"]) for _ in range(rng.randint(0, 3)))))
            elif r < 0.8:
                body.append("%s[] += {3};" % rng.choice(["arr", "lst"]))
            elif r < 0.88:
                body.append("delete %s;" % rng.choice(names))
            elif depth < 2:
                body.append(cls(depth + 1))
        return "class %s%s { %s };" % (n, parent, " ".join(body))
    for _ in range(rng.randint(1, 4)):
        out.append(cls(0))
    return "\n".join(out)[:900]


def corpus_pp(rng):
    lines = []
    macros = ["M1", "M2", "FN", "STR", "CAT"]
    for _ in range(rng.randint(2, 8)):
        r = rng.random()
        if r < 0.2:
            lines.append("#define %s %d" % (rng.choice(macros), rng.randint(0, 9)))
        elif r < 0.35:
            lines.append("#define %s(a,b) (a + b \\\n  + 1)" % rng.choice(macros))
        elif r < 0.45:
            lines.append("#define STR(x) #x")
        elif r < 0.5:
            lines.append("#define CAT(a,b) a##b")
        elif r < 0.6:
            lines.append("#ifdef %s\n_a = 1;\n#else\n_a = 2;\n#endif" % rng.choice(macros))
        elif r < 0.65:
            lines.append("#ifndef %s\n_b = 1;\n#endif" % rng.choice(macros))
        elif r < 0.7:
            lines.append("#undef %s" % rng.choice(macros))
        elif r < 0.75:
            lines.append("_x = %s(1, (2 + [3, \"a,b\"])) + %s;" % (rng.choice(macros), rng.choice(macros)))
        elif r < 0.8:
            # macro names as complete arguments of other macros
            lines.append("_w = %s(%s, %s);" % (rng.choice(macros), rng.choice(macros), rng.choice(macros)))
        elif r < 0.85:
            lines.append("_y = __EVAL(1 + 2) + __LINE__; _f = __FILE__;")
        elif r < 0.88:
            # an include of a file that does not exist: well-formed, answered with a diagnostic; its cuts and token damage are what matters
            lines.append('#include "%s"' % rng.choice(["nofile.hpp", "sub\\nofile.hpp", "../nofile.hpp"]))
        elif r < 0.92:
            lines.append('_s = "text with %s inside // not a comment";' % rng.choice(macros))
        else:
            lines.append("// comment %s\n/* block %s */ _z = 3;" % (rng.choice(macros), rng.choice(macros)))
    return "\n".join(lines)[:900]


# ---------------------------------------------------------------------------------------------
# damage enumeration
# ---------------------------------------------------------------------------------------------
def damages(text, rng, quota):
    """yields (kind, token class, damaged text); complete enumeration of prefixes, token damage up to quota"""
    n = len(text)
    for i in range(0, n):
        yield ("prefix", cls_at(text, i), text[:i])
    toks = [m for m in TOKEN_RE.finditer(text)]
    idxs = list(range(len(toks)))
    plan = []
    for i in idxs:
        if toks[i].group().isspace():
            continue
        plan.append(("delete", i, None))
        plan.append(("duplicate", i, None))
        for op in OPENERS:
            plan.append(("replace", i, op))
    if len(plan) > quota:
        plan = rng.sample(plan, quota)
        plan.sort(key=lambda p: (p[1], p[0], p[2] or ""))
    for kind, i, op in plan:
        t = toks[i]
        if kind == "delete":
            yield ("delete", tok_class(t.group()), text[:t.start()] + text[t.end():])
        elif kind == "duplicate":
            yield ("duplicate", tok_class(t.group()), text[:t.end()] + t.group() + text[t.end():])
        else:
            yield ("replace:" + op.strip()[:3], tok_class(t.group()), text[:t.start()] + op + text[t.end():])


def tok_class(t):
    if t.startswith('"') or t.startswith("'"):
        return "string"
    if t.startswith("#"):
        return "directive"
    if t in ("//", "/*", "*/"):
        return "comment"
    if t[0].isdigit():
        return "number"
    if t[0].isalpha() or t[0] == "_":
        return "word"
    if t.isspace():
        return "space"
    return "punct:" + t


def cls_at(text, i):
    if i == 0:
        return "start"
    m = None
    for m in TOKEN_RE.finditer(text):
        if m.start() <= i - 1 < m.end():
            inside = i < m.end()
            return tok_class(m.group()) + (":inside" if inside else ":after")
    return "end"


def special_inputs(rng):
    """nesting, macro recursion; (label, text)"""
    d = rng.choice([1, 5, 50, 200])
    out = [("nest:(", "(" * d + "1" + ")" * d), ("nest:[", "[" * d + "1" + "]" * d), ("nest:{", "{" * d + "1" + "}" * d),
           ("nest:open-only", rng.choice(["(", "[", "{"]) * d),
           ("nest:call", "call {" * d + "1" + "}" * d),
           ("macro:self", "#define A A\nA"), ("macro:mutual", "#define A B\n#define B A\nA B"),
           ("macro:self-args", "#define F(x) F(x)\nF(1)"), ("macro:mutual-args", "#define F(x) G(x)\n#define G(x) F(x)\nF(1)"),
           ("macro:unterminated-call", "#define F(x) x\nF(1, (2"),
           ("macro:callable-name-as-argument", "#define G(x) x\n#define F(a) a\nF(G)"),
           ("macro:callable-name-as-last-argument", "#define G(x) x\n#define F(a,b) a b\n_v = F(1,G);"),
           ("macro:object-name-as-argument", "#define N 3\n#define F(a) a\nF(N) F( N ) F(N,N)"), ("comment:eof-line", "1 // x"), ("comment:eof-block", "1 /* x"),
           ("include:no-path", "#include\n_a = 1;"), ("include:blank-at-eof", "_a = 1;\n#include "), ("include:empty-path", '#include ""\n_a = 1;'),
           ("include:unterminated", '#include "abc'), ("include:angle", "#include <abc>\n_a = 1;"), ("include:comment-only", "#include // nothing\n_a = 1;"),
           ("directive:bare-hash", "#"), ("directive:unknown", "#foo bar\n_a = 1;"), ("directive:else-alone", "#else\n_a = 1;\n#endif"),
           ("line:eof", "#line"), ("line:garbage", "#line abc \"f\"\n1"), ("string:eof", '"abc'), ("string:eof-single", "'abc"),
           ("hex:eof", "0x"), ("hex:dollar-eof", "$"), ("number:forms", "1e 1e+ .5. 1..2"),
           ("config:nest", "class A {" * d + "};" * d), ("config:array-nest", "a[] = " + "{" * d + "1" + "}" * d + ";"),
           ("random-bytes", "".join(chr(rng.choice([0, 1, 9, 10, 13, 34, 35, 39, 40, 41, 42, 47, 59, 91, 92, 93, 123, 125, 65, 95, 48, 127, 200, 255])) for _ in range(rng.randint(1, 60))))]
    return out


# ---------------------------------------------------------------------------------------------
# plan building
# ---------------------------------------------------------------------------------------------
def b64(s):
    return base64.b64encode(s.encode("latin-1", "replace")).decode()


def step_for(entry, text, idx):
    if entry in ("preprocess", "sqf", "config", "sqf_check", "config_check"):
        return [{"do": "parse", "vm": "a", "entry": entry, "text_b64": b64(text), "name": "in%d.sqf" % idx}]
    if entry in ("op_compile", "op_preprocess", "op_configparse"):
        op = {"op_compile": "compile", "op_preprocess": "preprocess__", "op_configparse": "configparse__"}[entry]
        lit = sqf.sqf_str(text.replace("\x00", ""))
        script = "_r = %s %s; t__ [%d, isNil \"_r\"];" % (op, lit, idx)
        return [{"do": "load", "vm": "a", "text": script, "name": "op%d.sqf" % idx, "preprocess": False},
                {"do": "action", "vm": "a", "name": "start"}, {"do": "action_if_failed", "vm": "a", "name": "abort"}]
    if entry == "api_call_s":
        return [{"do": "api_call", "inst": "i0", "type": "s", "text_b64": b64(text), "cookie": idx}]
    if entry == "api_call_p":
        return [{"do": "api_call", "inst": "i0", "type": "p", "text_b64": b64(text), "cookie": idx}]
    if entry == "api_load_config":
        return [{"do": "api_load_config", "inst": "i0", "text_b64": b64(text)}]
    raise ValueError(entry)


def generate(rng, tier, run):
    kind = rng.choice(["sqf", "sqf", "config", "pp", "pp", "special", "include"])
    if kind == "include":
        return generate_include(rng, run)
    if kind == "special":
        items = [(lab, "special", t) for lab, t in special_inputs(rng)]
        entries = ENTRIES
        base = ""
    else:
        base = {"sqf": corpus_sqf, "config": corpus_config, "pp": corpus_pp}[kind](rng)
        quota = 250 if tier == "quick" else 1500
        items = [(k, c, t) for k, c, t in damages(base, rng, quota)]
        entries = {"sqf": ["sqf", "preprocess", "op_compile", "api_call_s", "sqf_check", "op_preprocess"],
                   "config": ["config", "op_configparse", "api_load_config", "config_check", "preprocess"],
                   "pp": ["preprocess", "op_preprocess", "api_call_p", "api_call_s", "sqf"]}[kind]
    entry_of = [rng.choice(entries) for _ in items]
    case = {"kind": kind, "base": base, "items": [[k, c, t, e] for (k, c, t), e in zip(items, entry_of)]}
    case["plans"] = [batch_plan(case, list(range(len(case["items"]))))]
    case["batches"] = [list(range(len(case["items"])))]
    return case


def batch_plan(case, idxs):
    steps = [{"do": "vm_new", "vm": "a", "conf": {"max_runtime_ms": 2000, "print_work": False}}]
    if any(case["items"][i][3].startswith("api") for i in idxs):
        steps.append({"do": "api_create", "inst": "i0", "kind": "full", "user": 1, "max_runtime_s": 2.0})
    for i in idxs:
        k, c, t, e = case["items"][i]
        steps.append({"do": "mark", "idx": i})
        steps += step_for(e, t, i)
    return {"prop": PROP, "steps": steps, "clock": {"per_instr_ns": 1000, "per_poll_ns": 100, "idle_jump": True},
            "limits": {"max_instr": 2000000, "max_events": 400000, "max_visits": 1000000, "watchdog_s": 25 if len(idxs) > 1 else 10},
            "observe": {"visits": False, "slices": False}}


# ---- include cycles over a real scratch directory ------------------------------------------------
def generate_include(rng, run):
    root = os.path.join(SCRATCH, "r%07d_%d" % (os.getpid(), run))
    variant = rng.choice(["self", "mutual", "chain3-cycle", "missing", "empty", "cut", "deep-ok", "dir-instead-of-file"])
    files = {}
    if variant == "self":
        files["a.hpp"] = '#include "a.hpp"\n_a = 1;\n'
    elif variant == "mutual":
        files["a.hpp"] = '#include "b.hpp"\n_a = 1;\n'
        files["b.hpp"] = '#include "a.hpp"\n_b = 1;\n'
    elif variant == "chain3-cycle":
        files["a.hpp"] = '#include "sub\\b.hpp"\n'
        files["sub/b.hpp"] = '#include "c.hpp"\n'
        files["sub/c.hpp"] = '#include "..\\a.hpp"\n'
    elif variant == "missing":
        files["a.hpp"] = '#include "nope.hpp"\n_a = 1;\n'
    elif variant == "empty":
        files["a.hpp"] = '#include "e.hpp"\n_a = 1;\n'
        files["e.hpp"] = ""
    elif variant == "cut":
        full = '#define X(a) (a + 1)\n_v = X(2);\n/* c */ "str";\n'
        files["a.hpp"] = '#include "e.hpp"\n_a = 1;\n'
        files["e.hpp"] = full[:rng.randint(0, len(full))]
    elif variant == "deep-ok":
        n = rng.randint(2, 12)
        for i in range(n):
            files["f%d.hpp" % i] = ('#include "f%d.hpp"\n' % (i + 1) if i + 1 < n else "") + "_f%d = %d;\n" % (i, i)
        files["a.hpp"] = '#include "f0.hpp"\n'
    elif variant == "dir-instead-of-file":
        files["a.hpp"] = '#include "d"\n_a = 1;\n'
        files["d/x.hpp"] = "1"
    main = '#include "a.hpp"\n_m = 1;\n'
    entry = rng.choice(["preprocess", "op_preprocessfile", "api_call_s"])
    case = {"kind": "include", "variant": variant, "root": root, "files": files, "main": main, "entry": entry,
            "items": [["include:" + variant, "include", main, entry]]}
    steps = [{"do": "fs", "op": "rm", "path": root}]
    for rel, content in sorted(files.items()):
        steps.append({"do": "fs", "op": "write", "path": os.path.join(root, rel), "text": content})
    steps.append({"do": "fs", "op": "chdir", "path": root})
    steps.append({"do": "vm_new", "vm": "a", "conf": {"max_runtime_ms": 2000, "print_work": False}, "mappings": [[root, "/"]]})
    steps.append({"do": "mark", "idx": 0})
    if entry == "preprocess":
        steps.append({"do": "parse", "vm": "a", "entry": "preprocess", "text_b64": b64(main), "name": os.path.join(root, "main.sqf")})
    elif entry == "op_preprocessfile":
        steps.append({"do": "fs", "op": "write", "path": os.path.join(root, "main.sqf"), "text": main})
        steps += [{"do": "load", "vm": "a", "text": '_r = preprocessFile "main.sqf"; t__ [0, isNil "_r"];', "name": os.path.join(root, "x.sqf"), "preprocess": False},
                  {"do": "action", "vm": "a", "name": "start"}, {"do": "action_if_failed", "vm": "a", "name": "abort"}]
    else:
        steps.append({"do": "api_create", "inst": "i0", "kind": "full", "user": 1, "max_runtime_s": 2.0})
        steps.append({"do": "api_call", "inst": "i0", "type": "s", "text_b64": b64(main), "cookie": 0})
    steps.append({"do": "fs", "op": "chdir", "path": "/"})
    steps.append({"do": "fs", "op": "rm", "path": root})
    case["plans"] = [{"prop": PROP, "steps": steps, "clock": {"per_instr_ns": 1000, "per_poll_ns": 100, "idle_jump": True},
                      "limits": {"max_instr": 500000, "max_events": 100000, "watchdog_s": 10}, "observe": {"visits": False, "slices": False}}]
    case["batches"] = [[0]]
    return case


def cleanup_disk(case):
    if case.get("kind") == "include":
        shutil.rmtree(case["root"], ignore_errors=True)


def prepare_disk(case, i):
    return None


# ---------------------------------------------------------------------------------------------
# a crashed / hung batch is re-run item by item
# ---------------------------------------------------------------------------------------------
def expand(case, hs):
    if case.get("kind") == "include" or case.get("expanded"):
        return None
    if not any("crash" in h or h.get("truncated") for h in hs):
        return None
    c = copy.deepcopy(case)
    c["expanded"] = True
    # bisect by the progress marker of the crashed child: everything from the crashing item on is re-run singly,
    # but at most 40 items (the first failing ones are what matters)
    first = 0
    h = hs[0]
    if "crash" in h:
        marks = re.findall(r"@step t-1 #\d+ mark", h["crash"].get("stderr", ""))
        first = max(0, len(marks) - 1)
    idxs = list(range(first, min(len(case["items"]), first + 40)))
    c["batches"] = [[i] for i in idxs]
    c["plans"] = [batch_plan(case, [i]) for i in idxs]
    return c


# ---------------------------------------------------------------------------------------------
# judging
# ---------------------------------------------------------------------------------------------
def judge(case, hs):
    V = []
    for bi, (idxs, h) in enumerate(zip(case["batches"], hs)):
        if "crash" in h:
            if len(idxs) == 1:
                k, c, t, e = case["items"][idxs[0]]
                site = crash_site(h["crash"])
                what = site.split("|")[0]
                where = site.split("|")[1]
                V.append(Violation("no-crash", "crash:%s:%s:%s" % (what, where, entry_group(e)),
                                   "entry %s, damage %s at %s, input %r\n%s" % (e, k, c, t[:300], h["crash"].get("stderr", "")[-1800:])))
            else:
                # a batch that could not be bisected (should not happen: expand() re-runs singly)
                V.append(Violation("no-crash", "crash:batch:" + crash_site(h["crash"]), h["crash"].get("stderr", "")[-1500:]))
            continue
        if h.get("truncated"):
            k, c, t, e = case["items"][idxs[0]]
            V.append(Violation("terminates", "hang:budget:%s:%s" % (entry_group(e), k.split(":")[0]), "entry %s did not return within the step budget; input %r" % (e, t[:200])))
            continue
        segs = split_by_mark(h["events"])
        for i in idxs:
            seg = segs.get(i)
            k, c, t, e = case["items"][i]
            if seg is None:
                V.append(Violation("terminates", "no-result:%s" % entry_group(e), "item %d (%s) produced no events" % (i, e)))
                continue
            V += judge_item(e, k, c, t, seg)
    out = {}
    for v in V:
        out.setdefault(v.key, v)
    return list(out.values())


def entry_group(e):
    return e


def split_by_mark(events):
    out = {}
    cur = None
    for e in events:
        if e[1] == "bad_step" and e[2] == "mark":
            continue
        if e[1] == "mark":
            cur = out.setdefault(e[2], [])
            continue
        if cur is not None:
            cur.append(e)
    return out


def judge_item(entry, kind, cls, text, seg):
    V = []
    errs = [e for e in seg if (e[1] == "log" and e[3] <= 1) or (e[1] == "cb" and e[4] in (0, 1))]
    dk = kind.split(":")[0]
    if entry in ("preprocess", "sqf", "config", "sqf_check", "config_check"):
        p = [e for e in seg if e[1] == "parse"]
        if not p:
            return [Violation("terminates", "no-result:%s" % entry, "no result event; input %r" % text[:200])]
        e = p[0]
        if e[6]:
            V.append(Violation("no-exception", "exception:%s:%s" % (entry, e[6].split(":")[1][:30] if ":" in e[6] else e[6][:30]), "C++ exception escaped %s: %s; input %r" % (entry, e[6], text[:300])))
        elif e[4] == 0 and not errs and entry in ("preprocess", "sqf", "config"):
            V.append(Violation("result-xor-diagnostic", "silent-failure:%s:%s" % (entry, dk), "%s returned no result and reported no error diagnostic; damage %s at %s; input %r" % (entry, kind, cls, text[:300])))
    elif entry.startswith("op_"):
        act = [e for e in seg if e[1] == "act" and e[4] == "start"]
        if not act:
            ld = [e for e in seg if e[1] == "load"]
            if ld and ld[0][3] != "ok":
                return []   # the wrapper script itself could not be built from this text (NUL etc.): not an entry-point result
            return [Violation("terminates", "no-result:%s" % entry, "operator run produced no result")]
        a = act[0]
        if a[12]:
            V.append(Violation("no-exception", "exception:%s" % entry, "C++ exception escaped the VM through %s: %s; input %r" % (entry, a[12], text[:300])))
        tr = [e for e in seg if e[1] == "t"]
        if not tr and not errs and a[5] != 2:
            V.append(Violation("result-xor-diagnostic", "silent-failure:%s:%s" % (entry, dk), "%s neither returned nor reported an error; input %r" % (entry, text[:300])))
        if tr and tr[0][4].endswith(",true]") and not errs and entry == "op_compile":
            V.append(Violation("result-xor-diagnostic", "silent-nil:%s:%s" % (entry, dk), "%s returned nil without an error diagnostic; input %r" % (entry, text[:300])))
    else:
        api = [e for e in seg if e[1] == "api" and e[2] in ("call", "load_config")]
        if not api:
            return [Violation("terminates", "no-result:%s" % entry, "API call produced no result")]
        a = api[0]
        if a[7]:
            V.append(Violation("no-exception", "exception:%s" % entry, "C++ exception escaped %s: %s; input %r" % (entry, a[7], text[:300])))
        if a[4] in (-2, -3) and not errs:
            V.append(Violation("result-xor-diagnostic", "silent-failure:%s:%d" % (entry, a[4]), "%s returned %d without an error diagnostic; input %r" % (entry, a[4], text[:300])))
    return V


def signature(case, hs):
    if all("crash" in h for h in hs):
        return None
    m = hashlib.sha256()
    m.update(repr([(k, c, e) for k, c, t, e in case["items"]]).encode())
    m.update(case.get("base", "").encode("latin-1", "replace"))
    return m.hexdigest()[:16]


def stats(case, hs):
    n = sum(len(b) for b in case["batches"])
    kinds = {}
    ents = {}
    for k, c, t, e in case["items"]:
        kk = k.split(":")[0]
        kinds[kk] = kinds.get(kk, 0) + 1
        ents[e] = ents.get(e, 0) + 1
    return {"executions": len(case["items"]), "damage_kinds": kinds, "entries": ents, "seed_inputs": {case["kind"]: 1},
            "faults_fired": kinds}


def evidence_extra(agg):
    return {"exhaustive": False, "prefixes_enumerated_completely_per_input": True}


def sample_view(case):
    return {"kind": case["kind"], "base_input": case.get("base", "")[:600], "damaged_samples": [[k, c, e, t[:120]] for k, c, t, e in case["items"][5:205:40]]}


def shrink_candidates(case):
    # single item
    if len(case["items"]) > 1 and case.get("kind") != "include":
        for i in range(len(case["items"])):
            c = copy.deepcopy(case)
            c["items"] = [case["items"][i]]
            c["batches"] = [[0]]
            c["plans"] = [batch_plan(c, [0])]
            c["expanded"] = True
            yield c
    elif case.get("kind") != "include":
        k, cl, t, e = case["items"][0]
        # shorten the input
        n = len(t)
        for cut in (n // 2, n // 4, 8, 1):
            if cut <= 0 or cut >= n:
                continue
            for variant in (t[cut:], t[:n - cut]):
                c = copy.deepcopy(case)
                c["items"] = [[k, cl, variant, e]]
                c["plans"] = [batch_plan(c, [0])]
                yield c
