"""C15 — config tree: values read back, inheritance lookup, merge / delete / append, acyclic.

Simulated history: 1-4 generated config texts (nested classes, single inheritance from visible names, re-opening,
forward declarations, delete, +=, numbers / strings / nested arrays, names from a small pool so that shadowing and
collisions are frequent) are loaded in a generated order through the real entry points (parser_config().parse as the
CLI does, configparse__ from a script, sqfvm_load_config between API calls) and interleaved with probe scripts that
look up every existing path, missing names below every class and every class's own entries. A fraction of the
histories tries to close an inheritance cycle across loads (judged for termination and acyclicity only).

Oracle: a reference tree (own entries in declaration order, base link, delete markers) answers every probe."""
import copy
import hashlib

from ..core import Violation, crash_site
from .. import sqfval
from ..sqf import sqf_str, fmt_num

PROP = "C15"
LEVEL = "exploration"
RUNS = {"quick": 3000, "thorough": 200000}
TIME_CAP = {"quick": 150, "thorough": 1500}
RULE = ("1-4 generated config texts (<= 25 classes, depth <= 3, inheritance, re-opening, forward declarations, delete, a deleted name defined again, +=) x load order x entry point "
        "(parser as the CLI uses it, configparse__, sqfvm_load_config) x probes after every load (all existing paths, missing and deleted names, own "
        "entries by index); non-trivial when at least one class inherits and at least two loads or one delete/+=/re-open occur; distinct by hash of "
        "(tree shape with kinds of items, entry points, number of loads)")
REAL = ["src/parser/config (tokenizer, bison parser, apply_to_confighost)", "src/runtime/confighost.h", "src/operators/ops_config.cpp", "src/export/sqfvm.cpp (sqfvm_load_config)",
        "src/operators/ops_sqfvm.cpp (configparse__)", "src/runtime (executor)"]
STUB = ["system_clock (virtual)", "logger (recording)"]
ASSUMPTIONS = ["histories whose meaning the statement does not fix are generated too but judged for termination, crash freedom and acyclicity only: base class not visible, "
               "re-opening with a different base, cycle attempts, delete of an own entry, += on a name the class already defines",
               "a base class is visible when it is an own entry of an enclosing class (nearest first); class and entry names are used in one spelling only",
               "configHierarchy may or may not start with the root entry; its elements may be configs or names"]

CLASSES = ["A", "B", "C", "D", "E"]
VALUES = ["x", "y", "z", "w"]


# ---------------------------------------------------------------------------------------------
# reference tree
# ---------------------------------------------------------------------------------------------
class Node:
    def __init__(self, name, parent):
        self.name = name
        self.parent = parent
        self.base = None
        self.entries = []       # [name, kind, payload]  kind: class (Node) | value | deleted

    def own(self, name):
        for e in self.entries:
            if e[0] == name:
                return e
        return None

    def path(self):
        out = []
        n = self
        while n.parent is not None:
            out.append(n.name)
            n = n.parent
        return list(reversed(out))


def visible_class(scope, name):
    """a base class name is looked for among the own entries of the enclosing classes, nearest first"""
    s = scope
    while s is not None:
        e = s.own(name)
        if e is not None:
            return e[2] if e[1] == "class" else None
        s = s.parent
    return None


def lookup(cls, name):
    """>> : own entry, else along the inheritance chain; a delete marker hides what is inherited"""
    seen = set()
    n = cls
    while n is not None and id(n) not in seen:
        seen.add(id(n))
        e = n.own(name)
        if e is not None:
            return None if e[1] == "deleted" else e
        n = n.base
    return None


class Unfixed(Exception):
    """the statement does not fix what this history means"""


def apply_items(items, node, strict):
    for it in items:
        k = it[0]
        if k in ("class", "decl"):
            name = it[1]
            base = it[2] if k == "class" else None
            e = node.own(name)
            if e is not None and e[1] == "value":
                raise Unfixed("class over value")
            if e is None or e[1] == "deleted":
                c = Node(name, node)
                if base:
                    b = visible_class(node, base)
                    if b is None or b is c:
                        raise Unfixed("base not visible")
                    c.base = b
                if e is not None:
                    node.entries.remove(e)      # a name defined again after `delete` is declared where it is defined again
                node.entries.append([name, "class", c])
            else:
                c = e[2]
                if base:
                    b = visible_class(node, base)
                    if b is not c.base:
                        raise Unfixed("re-opened with another base")
            if k == "class":
                apply_items(it[3], c, strict)
        elif k == "delete":
            name = it[1]
            e = node.own(name)
            if e is not None and e[1] != "deleted":
                raise Unfixed("delete of an own entry")
            if e is None:
                node.entries.append([name, "deleted", None])
        elif k in ("val", "arr"):
            name = it[1]
            e = node.own(name)
            if e is not None and e[1] == "class":
                raise Unfixed("value over class")
            if e is not None and e[1] == "deleted":
                node.entries.remove(e)
                e = None
            if e is None:
                node.entries.append([name, "value", it[2]])
            else:
                e[1], e[2] = "value", it[2]
        elif k == "app":
            name = it[1]
            e = node.own(name)
            if e is not None:
                raise Unfixed("+= on an own entry")
            inh = lookup(node.base, name) if node.base is not None else None
            val = list(it[2])
            if inh is not None and inh[1] == "value" and isinstance(inh[2], list):
                val = list(inh[2]) + val
            elif inh is not None:
                raise Unfixed("+= over a non-array")
            node.entries.append([name, "value", val])
        else:
            raise ValueError(k)


# ---------------------------------------------------------------------------------------------
# printing
# ---------------------------------------------------------------------------------------------
def p_value(v):
    if isinstance(v, list):
        return "{" + ", ".join(p_value(x) for x in v) + "}"
    if isinstance(v, str):
        return sqf_str(v)
    return fmt_num(v)


def p_items(items, ind=0):
    pad = "  " * ind
    out = []
    for it in items:
        k = it[0]
        if k == "class":
            head = "class %s" % it[1] + (" : %s" % it[2] if it[2] else "")
            out.append(pad + head + " {")
            out.append(p_items(it[3], ind + 1))
            out.append(pad + "};")
        elif k == "decl":
            out.append(pad + "class %s;" % it[1])
        elif k == "delete":
            out.append(pad + "delete %s;" % it[1])
        elif k == "val":
            out.append(pad + "%s = %s;" % (it[1], p_value(it[2])))
        elif k == "arr":
            out.append(pad + "%s[] = %s;" % (it[1], p_value(it[2])))
        elif k == "app":
            out.append(pad + "%s[] += %s;" % (it[1], p_value(it[2])))
    return "\n".join(x for x in out if x != "")


# ---------------------------------------------------------------------------------------------
# generation (drives a shadow tree so that references are meaningful)
# ---------------------------------------------------------------------------------------------
def gen_value(rng, kind=None):
    kind = kind or rng.choice(["num", "num", "str", "arr"])
    if kind == "num":
        return rng.choice([0, 1, 2, 7, -3, 0.5, 12.25, 1000, -0.75])
    if kind == "str":
        return rng.choice(["", "a", "abc", "Hello World", "x y", "it's", "say \"hi\"", "1"])
    return gen_array(rng, 0)


def gen_array(rng, depth):
    out = []
    for _ in range(rng.randint(0, 3)):
        r = rng.random()
        if r < 0.5:
            out.append(rng.choice([0, 1, 2, 5, -1, 0.5]))
        elif r < 0.8 or depth >= 2:
            out.append(rng.choice(["a", "b", "", "k v"]))
        else:
            out.append(gen_array(rng, depth + 1))
    return out


def visible_names(scope):
    out = []
    s = scope
    seen = set()
    while s is not None:
        for e in s.entries:
            if e[0] not in seen:
                seen.add(e[0])
                if e[1] == "class":
                    out.append(e[0])
        s = s.parent
    return out


def inherited_names(node):
    """names reachable through the base chain (not own), with their entries"""
    out = {}
    n = node.base
    seen = set()
    while n is not None and id(n) not in seen:
        seen.add(id(n))
        for e in n.entries:
            if e[0] not in out and node.own(e[0]) is None:
                out[e[0]] = e
        n = n.base
    return {k: v for k, v in out.items() if v[1] != "deleted"}


def gen_body(rng, node, depth, budget, opts):
    items = []
    n = rng.randint(1, 5 if depth == 0 else 4)
    for _ in range(n):
        if budget[0] <= 0:
            break
        r = rng.random()
        own_classes = [e[0] for e in node.entries if e[1] == "class"]
        if r < 0.34 and depth < 3:
            # new class or re-open
            if own_classes and rng.random() < opts["reopen"]:
                name = rng.choice(own_classes)
                c = node.own(name)[2]
                base = None
                if c.base is not None and rng.random() < 0.4:
                    base = c.base.name if visible_class(node, c.base.name) is c.base else None
                it = ["class", name, base, []]
                items.append(it)
                budget[0] -= 1
                it[3] = gen_body(rng, c, depth + 1, budget, opts)
            else:
                free = [x for x in CLASSES if node.own(x) is None]
                # a name this class deleted earlier (same body or an earlier load) may be defined again
                gone = [x for x in CLASSES if node.own(x) is not None and node.own(x)[1] == "deleted"]
                readd = bool(gone) and rng.random() < 0.6
                if not free and not readd:
                    continue
                name = rng.choice(gone if readd else free)
                vis = visible_names(node)
                base = rng.choice(vis) if vis and rng.random() < opts["inherit"] else None
                # a nested class named like its base in an outer scope: class X : X
                outer_same = [v for v in vis if v in free]
                if outer_same and depth > 0 and not readd and rng.random() < 0.25:
                    name = base = rng.choice(outer_same)
                c = Node(name, node)
                if base:
                    c.base = visible_class(node, base)
                    if c.base is None or c.base is c:
                        base = None
                        c.base = None
                if readd:
                    node.entries.remove(node.own(name))
                node.entries.append([name, "class", c])
                it = ["class", name, base, []]
                items.append(it)
                budget[0] -= 1
                it[3] = gen_body(rng, c, depth + 1, budget, opts)
        elif r < 0.40:
            free = [x for x in CLASSES if node.own(x) is None]
            if free and depth < 3:
                name = rng.choice(free)
                node.entries.append([name, "class", Node(name, node)])
                items.append(["decl", name])
        elif r < 0.50 and node.base is not None:
            inh = inherited_names(node)
            if inh:
                name = rng.choice(sorted(inh))
                node.entries.append([name, "deleted", None])
                items.append(["delete", name])
        elif r < 0.60 and node.base is not None:
            inh = inherited_names(node)
            arrs = [k for k, e in inh.items() if e[1] == "value" and isinstance(e[2], list)]
            if arrs:
                name = rng.choice(sorted(arrs))
                add = gen_array(rng, 1)
                node.entries.append([name, "value", list(inh[name][2]) + add])
                items.append(["app", name, add])
        else:
            if depth == 0:
                continue        # the grammar has no value entries at file level
            cands = [x for x in VALUES if node.own(x) is None or node.own(x)[1] in ("value", "deleted")]
            if not cands:
                continue
            name = rng.choice(cands)
            v = gen_value(rng)
            e = node.own(name)
            if e is not None and e[1] == "deleted":
                node.entries.remove(e)
                e = None
            if e is None:
                node.entries.append([name, "value", v])
            else:
                e[2] = v
            items.append(["arr" if isinstance(v, list) else "val", name, v])
    return items


def generate(rng, tier, run):
    opts = {"reopen": rng.choice([0.1, 0.3, 0.5]), "inherit": rng.choice([0.3, 0.6, 0.9])}
    shadow = Node("", None)
    files = []
    budget = [rng.choice([8, 15, 25])]
    for _ in range(rng.randint(1, 4)):
        files.append(gen_body(rng, shadow, 0, budget, opts))
        budget[0] += rng.randint(2, 6)
    case = {"files": files, "entry": [rng.choice(["parse", "parse", "configparse", "api"]) for _ in files], "cycle": None}
    if rng.random() < 0.15:
        # try to close a cycle with a last load: re-open a class with a descendant (or itself) as base
        tops = [e for e in shadow.entries if e[1] == "class"]
        pairs = [(a[0], b[0]) for a in tops for b in tops if a is not b and descends(b[2], a[2])]
        if pairs:
            a, b = rng.choice(pairs)
            case["files"].append([["class", a, b, []]])
        elif tops:
            a = rng.choice(tops)[0]
            case["files"].append([["class", a, a, []]])
        if len(case["files"]) > len(case["entry"]):
            case["entry"].append(rng.choice(["parse", "configparse", "api"]))
            case["cycle"] = len(case["files"]) - 1
    if "api" in case["entry"]:
        case["entry"] = ["api"] * len(case["entry"])       # an API instance owns its config tree: keep a history on one backend
    case["plan"] = plan_of(case)
    return case


def descends(n, anc):
    seen = set()
    while n is not None and id(n) not in seen:
        seen.add(id(n))
        if n is anc:
            return True
        n = n.base
    return False


# ---------------------------------------------------------------------------------------------
# probes
# ---------------------------------------------------------------------------------------------
PROBE_FN = ('private _f = { params ["_c"]; if (isNull _c) then {[true]} else { private _n = []; for "_i" from 0 to (count _c) - 1 do { private _e = _c select _i; '
            '_n pushBack (if (isNull _e) then {"<null>"} else {configName _e}) }; private _b = inheritsFrom _c; '
            '[false, isClass _c, isNumber _c, isText _c, isArray _c, getNumber _c, getText _c, getArray _c, configName _c, (if (isNull _b) then {""} else {configName _b}), '
            'count _c, (configHierarchy _c) apply {if (_x isEqualType "") then {_x} else {configName _x}}, _n] } };')


def model_after(case, nloads):
    root = Node("", None)
    for items in case["files"][:nloads]:
        apply_items(items, root, True)
    return root


def all_paths(root):
    """every path a probe asks for: existing entries (own and inherited), a missing and the deleted names below every class"""
    out = []
    seen_nodes = set()

    def walk(node, path, depth):
        if id(node) in seen_nodes or depth > 4:
            return
        seen_nodes.add(id(node))
        names = []
        n = node
        seen = set()
        while n is not None and id(n) not in seen:
            seen.add(id(n))
            for e in n.entries:
                if e[0] not in names:
                    names.append(e[0])
            n = n.base
        for nm in names + ["nope"]:
            out.append(path + [nm])
            e = lookup(node, nm)
            if e is not None and e[1] == "class" and len(path) < 3:
                walk(e[2], path + [nm], depth + 1)
        seen_nodes.discard(id(node))
    walk(root, [], 0)
    return out[:120]


def probe_text(paths, tag):
    lines = [PROBE_FN]
    for i, p in enumerate(paths):
        expr = "configFile" + "".join(" >> %s" % sqf_str(x) for x in p)
        lines.append('{ t__ ["P", %d, %d, [%s] call _f] } except__ { t__ ["P", %d, %d, "E"] };' % (tag, i, expr, tag, i))
    lines.append('t__ ["PEND", %d];' % tag)
    return "\n".join(lines)


def plan_of(case):
    api = case["entry"] and case["entry"][0] == "api"
    steps = []
    if api:
        steps.append({"do": "api_create", "inst": "i0", "kind": "full", "max_runtime_s": 0})
    else:
        steps.append({"do": "vm_new", "vm": "a", "conf": {"print_work": False}})
    probes = []
    for i, items in enumerate(case["files"]):
        text = p_items(items)
        ent = case["entry"][i]
        steps.append({"do": "mark", "idx": i})
        if ent == "api":
            steps.append({"do": "api_load_config", "inst": "i0", "text": text})
        elif ent == "parse":
            steps.append({"do": "parse", "vm": "a", "entry": "config", "text": text, "name": "/cfg%d.cpp" % i})
        else:
            steps += [{"do": "load", "vm": "a", "text": "configparse__ %s; t__ [\"LOADED\", %d];" % (sqf_str(text), i), "name": "load%d.sqf" % i, "preprocess": False},
                      {"do": "action", "vm": "a", "name": "start"}, {"do": "action_if_failed", "vm": "a", "name": "abort"}]
        try:
            root = model_after(case, i + 1)
            paths = all_paths(root)
        except Unfixed:
            # meaning not fixed: still look around (termination), using the paths of the last determined tree plus the top level names
            paths = probes[-1] if probes else []
            paths = paths + [[c] for c in CLASSES] + [[c, d] for c in CLASSES[:3] for d in CLASSES[:3] + VALUES[:2]] + [[c, d, "x"] for c in CLASSES[:3] for d in CLASSES[:3]]
            paths = paths[:150]
        except RecursionError:
            paths = []
        probes.append(paths)
        ptext = probe_text(paths, i)
        if api:
            steps.append({"do": "api_call", "inst": "i0", "type": "s", "text": ptext})
        else:
            steps += [{"do": "load", "vm": "a", "text": ptext, "name": "probe%d.sqf" % i, "preprocess": False},
                      {"do": "action", "vm": "a", "name": "start"}, {"do": "action_if_failed", "vm": "a", "name": "abort"}]
    case["probes"] = probes
    return {"prop": PROP, "steps": steps, "clock": {"per_instr_ns": 1000, "per_poll_ns": 100, "idle_jump": True},
            "limits": {"max_instr": 400000, "max_events": 100000, "watchdog_s": 6}, "observe": {"visits": False, "slices": False}}


# ---------------------------------------------------------------------------------------------
# judge
# ---------------------------------------------------------------------------------------------
def situation(root, path):
    """how the probed path relates to the tree: own / inherited:k / deleted / missing (first non-own hop decides)"""
    node = root
    sit = "own"
    for i, nm in enumerate(path):
        e = None
        n = node
        k = 0
        seen = set()
        while n is not None and id(n) not in seen:
            seen.add(id(n))
            e = n.own(nm)
            if e is not None:
                break
            n = n.base
            k += 1
        if e is None:
            return "missing"
        if e[1] == "deleted":
            return "deleted" if k == 0 else "missing"
        if k > 0 and sit == "own":
            sit = "inherited:%d" % min(k, 3)
        if e[1] != "class":
            return sit if i == len(path) - 1 else "missing"
        node = e[2]
    return sit


def expect(root, path):
    node = root
    e = None
    for i, nm in enumerate(path):
        if node is None:
            return None
        e = lookup(node, nm)
        if e is None:
            return None
        node = e[2] if e[1] == "class" else None
        if e[1] != "class" and i != len(path) - 1:
            return None
    return e


def num_eq(a, b):
    try:
        return abs(float(a) - float(b)) <= 1e-6 * max(1.0, abs(float(b)))
    except Exception:    # noqa
        return False


def val_eq(got, want):
    if isinstance(want, list):
        return isinstance(got, list) and len(got) == len(want) and all(val_eq(g, w) for g, w in zip(got, want))
    if isinstance(want, str):
        return isinstance(got, str) and not isinstance(got, sqfval.Raw) and got == want
    return isinstance(got, (int, float)) and not isinstance(got, bool) and num_eq(got, want)


def judge(case, hs):
    h = hs[0]
    if "crash" in h:
        site = crash_site(h["crash"])
        import re
        marks = re.findall(r"mark", h["crash"].get("stderr", ""))
        kind = "cycle-attempt" if case.get("cycle") is not None else "plain"
        return [Violation("terminates", "crash:%s:%s" % (site.split("|")[0], kind), "entry points %r\n%s" % (case["entry"], h["crash"].get("stderr", "")[-2000:]))]
    if h.get("truncated"):
        return [Violation("terminates", "hang:budget:%s" % ("cycle-attempt" if case.get("cycle") is not None else "plain"), "the history did not finish within the instruction budget")]
    ev = h["events"]
    V = []
    got = {}
    ended = set()
    for e in ev:
        if e[1] == "t":
            p = sqfval.parse(e[4])
            if isinstance(p, list) and p and p[0] == "P" and len(p) >= 4:
                got[(int(p[1]), int(p[2]))] = p[3]
            elif isinstance(p, list) and p and p[0] == "PEND":
                ended.add(int(p[1]))
        elif e[1] == "act" and e[12]:
            V.append(Violation("no-exception", "exception:%s" % e[12].split(":")[0].replace(" ", "_")[:40], "exception escaped execute(): %s" % e[12]))
        elif e[1] == "api" and e[2] == "call" and len(e) > 7 and e[7]:
            V.append(Violation("no-exception", "exception:api:%s" % e[7].split(":")[0].replace(" ", "_")[:40], "exception escaped sqfvm_call: %s" % e[7]))
    nchecks = 0
    fixed = True
    # every generated text is well-formed: each load has to be accepted
    loads = []
    for e in ev:
        if e[1] == "parse" and e[3] == "config":
            loads.append(("parse", bool(e[4]), e[6] if len(e) > 6 else ""))
        elif e[1] == "api" and e[2] == "load_config":
            loads.append(("api", e[4] == 0, "code %s" % e[4]))
        elif e[1] == "t" and e[4].startswith('["LOADED"'):
            loads.append(("configparse", True, ""))
    for i, (how, ok, msg) in enumerate(loads):
        if not ok:
            V.append(Violation("load", "load-rejected:%s" % how, "load %d (%s) of a well-formed text was rejected: %s\n%s" % (i + 1, how, msg, p_items(case["files"][i])[:600] if i < len(case["files"]) else "")))
            return V
    for i in range(len(case["files"])):
        if i not in ended:
            V.append(Violation("terminates", "probe-not-finished:%s" % ("cycle-attempt" if case.get("cycle") is not None and i >= case["cycle"] else "plain"),
                               "the probe script after load %d did not run to its end (entry %s)" % (i, case["entry"][i])))
            break
        try:
            root = model_after(case, i + 1) if fixed else None
        except (Unfixed, RecursionError):
            fixed = False
            root = None
        paths = case["probes"][i]
        if root is None:
            # acyclicity as far as it can be read back: no class may be its own ancestor according to inheritsFrom (names along the chain)
            V += judge_acyclic(case, i, paths, got)
            continue
        for j, path in enumerate(paths):
            r = got.get((i, j))
            if r is None:
                continue
            nchecks += 1
            e = expect(root, path)
            sit = situation(root, path)
            where = "load %d/%d via %s, path %s" % (i + 1, len(case["files"]), case["entry"][i], " >> ".join(path))
            if r == "E":
                V.append(Violation("lookup", "probe-error:%s" % sit, "%s: the probe raised an error" % where))
                continue
            if not isinstance(r, list) or not r:
                continue
            if e is None:
                if r[0] is not True:
                    V.append(Violation("lookup", "found-unexpectedly:%s" % sit, "%s: should not resolve, got %r" % (where, r[8] if len(r) > 8 else r)))
                continue
            if r[0] is True:
                V.append(Violation("lookup", "not-found:%s" % sit, "%s: should resolve to %s" % (where, "class" if e[1] == "class" else "value %r" % (e[2],))))
                continue
            if len(r) < 13:
                continue
            isclass, isnum, istext, isarr, gnum, gtext, garr, cname, inh, cnt, hier, sel = r[1:13]
            if cname != path[-1]:
                V.append(Violation("lookup", "wrong-entry:%s" % sit, "%s: configName says %r" % (where, cname)))
                continue
            if e[1] == "class":
                c = e[2]
                if isclass is not True or isnum or istext or isarr:
                    V.append(Violation("value", "kind:class:%s" % sit, "%s: a class reads isClass=%r isNumber=%r isText=%r isArray=%r" % (where, isclass, isnum, istext, isarr)))
                want_inh = c.base.name if c.base is not None else ""
                if inh != want_inh:
                    V.append(Violation("inherits", "inheritsFrom:%s" % ("has-base" if c.base is not None else "no-base"), "%s: inheritsFrom gives %r, the base class is %r" % (where, inh, want_inh)))
                own = [x[0] for x in c.entries if x[1] != "deleted"]
                if not num_eq(cnt, len(own)):
                    V.append(Violation("enumerate", "count:%s" % ("with-delete" if any(x[1] == "deleted" for x in c.entries) else "plain"),
                                       "%s: count gives %r, the class has the own entries %r (deleted names %r)" % (where, cnt, own, [x[0] for x in c.entries if x[1] == "deleted"])))
                elif sel != own:
                    V.append(Violation("enumerate", "select-order:%s" % ("with-delete" if any(x[1] == "deleted" for x in c.entries) else "plain"),
                                       "%s: select 0..n-1 gives %r, declaration order is %r" % (where, sel, own)))
                want_h = c.path()
                hh = hier if isinstance(hier, list) else []
                if hh != want_h and hh[1:] != want_h:
                    V.append(Violation("hierarchy", "configHierarchy:depth%d" % len(want_h), "%s: configHierarchy gives %r, the enclosing classes are %r" % (where, hier, want_h)))
            else:
                v = e[2]
                kind = "array" if isinstance(v, list) else ("text" if isinstance(v, str) else "number")
                flags = (isclass, isnum, istext, isarr)
                wantf = (False, kind == "number", kind == "text", kind == "array")
                if flags != wantf:
                    V.append(Violation("value", "kind:%s:%s" % (kind, sit), "%s: value %r reads isClass/isNumber/isText/isArray = %r" % (where, v, flags)))
                    continue
                g = {"number": gnum, "text": gtext, "array": garr}[kind]
                if not val_eq(g, v):
                    V.append(Violation("value", "value:%s:%s" % (kind, sit), "%s: written %r, read back %r" % (where, v, g)))
    case["_checks"] = nchecks
    out = {}
    for v in V:
        out.setdefault(v.key, v)
    return list(out.values())


def judge_acyclic(case, i, paths, got):
    """read the inheritance relation back by names: a top level class must not reach itself"""
    V = []
    base = {}
    for j, path in enumerate(paths):
        r = got.get((i, j))
        if isinstance(r, list) and len(r) >= 13 and r[0] is False and r[1] is True and len(path) == 1:
            base[path[0]] = r[9]
    for start in base:
        n = start
        seen = []
        while n and n in base and n not in seen:
            seen.append(n)
            n = base[n]
        if n and n in seen:
            V.append(Violation("acyclic", "inheritance-cycle", "after load %d the inheritance relation read back through inheritsFrom is cyclic: %s -> %s" % (i + 1, " -> ".join(seen), n)))
            break
    return V


# ---------------------------------------------------------------------------------------------
# bookkeeping
# ---------------------------------------------------------------------------------------------
def shape(items):
    out = []
    for it in items:
        if it[0] == "class":
            out.append(("c", bool(it[2]), shape(it[3])))
        else:
            out.append(it[0])
    return tuple(out)


def flat(items):
    for it in items:
        yield it
        if it[0] == "class":
            for x in flat(it[3]):
                yield x


def signature(case, hs):
    h = hs[0]
    if "crash" in h:
        return None
    allit = [it for f in case["files"] for it in flat(f)]
    inherits = any(it[0] == "class" and it[2] for it in allit)
    rich = len(case["files"]) >= 2 or any(it[0] in ("delete", "app") for it in allit)
    if not (inherits and rich):
        return None
    m = hashlib.sha256()
    m.update(repr([shape(f) for f in case["files"]]).encode())
    m.update(repr(case["entry"]).encode())
    return m.hexdigest()[:16]


def stats(case, hs):
    allit = [it for f in case["files"] for it in flat(f)]
    kinds = {}
    for it in allit:
        kinds[it[0]] = kinds.get(it[0], 0) + 1
    ent = {}
    for e in case["entry"]:
        ent[e] = ent.get(e, 0) + 1
    return {"executions": 1, "loads": len(case["files"]), "items": kinds, "entry_points": ent, "probes": sum(len(p) for p in case.get("probes", [])),
            "checks": case.get("_checks", 0), "cycle_attempts": 1 if case.get("cycle") is not None else 0}


def sample_view(case):
    return {"files": [p_items(f)[:600] for f in case["files"]], "entry": case["entry"], "cycle_attempt_at": case.get("cycle")}


def shrink_candidates(case):
    def rebuilt(c):
        c["plan"] = plan_of(c)
        return c
    for i in range(len(case["files"]) - 1, -1, -1):
        if len(case["files"]) > 1:
            c = copy.deepcopy(case)
            del c["files"][i]
            del c["entry"][i]
            if c.get("cycle") is not None:
                c["cycle"] = None if i == case["cycle"] else (case["cycle"] - 1 if i < case["cycle"] else case["cycle"])
            yield rebuilt(c)
    # drop single items (deepest last)
    def drops(items, prefix):
        for k in range(len(items) - 1, -1, -1):
            yield prefix + [k]
            if items[k][0] == "class":
                for x in drops(items[k][3], prefix + [k]):
                    yield x
    for fi, f in enumerate(case["files"]):
        for pos in drops(f, []):
            c = copy.deepcopy(case)
            items = c["files"][fi]
            for k in pos[:-1]:
                items = items[k][3]
            del items[pos[-1]]
            yield rebuilt(c)
    if any(e != "parse" for e in case["entry"]):
        c = copy.deepcopy(case)
        c["entry"] = ["parse"] * len(c["entry"])
        yield rebuilt(c)
