"""C17 — PBO archives are read faithfully; damaged ones are rejected safely.

Simulated disk: an independent packer (written from the PBO format description, not from pbofile.hpp) builds
archives from seeded file sets. Fault sequences per archive: the intact image; EVERY truncation length; for every
byte of the header area the values 0x00 / 0xFF / ^0x01 / ^0x80; every length field set to 0, 1, size+-1, 2^31-1,
2^32-1; NUL terminators removed; absent file. Every image is opened through rvutils::pbo::pbofile, mapped into the
VM's file layer (add_pbo_mapping + reads of every entry under the prefix) and, for a sample, through the CLI.
"""
import base64
import copy
import hashlib
import os
import struct

from ..core import Violation, crash_site

PROP = "C17"
LEVEL = "fault_enumeration"
RUNS = {"quick": 40, "thorough": 1500}
TIME_CAP = {"quick": 170, "thorough": 1500}
RULE = ("per sampled archive (0-8 entries, sub-folder names, sizes 0..2 KiB incl. empty and, in about one archive of five, one entry of 4-12 KiB that outgrows the stream buffer behind the reader, binary content, properties incl. prefix, optional "
        "checksum trailer): the intact image, every truncation length, 4 byte values at every header byte, 6 values at every length field, "
        "removed terminators, absent file; each image through one open path. An image is non-trivial when it differs from the intact "
        "archive; distinct by hash of (fault kind, region hit: version/properties/entry table/data/trailer, open path)")
REAL = ["src/rvutils/pbofile.hpp", "src/fileio/default.cpp (add_pbo_mapping, get_info, read_file)", "src/cli/cli.cpp --input-pbo"]
STUB = ["archive images are written by the simulator before the reader opens them (crash-at-rest of stored bytes)", "logger (recording)"]
ASSUMPTIONS = ["damaged archive: the reader may refuse it, or expose entries each byte-identical to the packed entry of that name; anything else is a violation",
               "allocation bound: largest single allocation during an open/read <= 1 MiB + 16 x file size",
               "truncation and header corruption are enumerated completely per sampled archive; archives are sampled"]
SCRATCH = "/var/tmp/verif-c17"


# ---------------------------------------------------------------------------------------------
# independent packer
# ---------------------------------------------------------------------------------------------
def pack(props, entries, trailer):
    """props: [(k,v)], entries: [(name, bytes)] -> (image bytes, layout)"""
    out = bytearray()
    layout = {"regions": []}

    def region(name, start):
        layout["regions"].append((name, start, len(out)))
    s = len(out)
    out += b"\x00" + b"sreV" + struct.pack("<IIII", 0, 0, 0, 0)
    region("version", s)
    s = len(out)
    for k, v in props:
        out += k.encode("latin-1") + b"\x00" + v.encode("latin-1") + b"\x00"
    out += b"\x00"
    region("properties", s)
    s = len(out)
    layout["fields"] = []
    for name, data in entries:
        out += name.encode("latin-1") + b"\x00"
        out += b"\x00\x00\x00\x00"
        layout["fields"].append(("orig", len(out)))
        out += struct.pack("<I", 0)
        out += struct.pack("<I", 0)
        out += struct.pack("<I", 1600000000)
        layout["fields"].append(("size", len(out)))
        out += struct.pack("<I", len(data))
    out += b"\x00" + b"\x00" * 20
    region("table", s)
    layout["header_end"] = len(out)
    s = len(out)
    for name, data in entries:
        out += data
    region("data", s)
    if trailer:
        s = len(out)
        out += b"\x00" + hashlib.sha1(bytes(out)).digest()
        region("trailer", s)
    return bytes(out), layout


def parse_image(data):
    """independent reading of an image: (entries [(name, size)], data_start) or None when the structure is broken"""
    def cstr(i):
        j = data.find(b"\x00", i)
        if j < 0:
            return None, None
        return data[i:j], j + 1
    name, i = cstr(0)
    if name is None or i + 20 > len(data):
        return None
    i += 20
    while True:
        if i >= len(data):
            return None
        if data[i] == 0:
            i += 1
            break
        k, i = cstr(i)
        if k is None:
            return None
        v, i = cstr(i)
        if v is None:
            return None
    entries = []
    while True:
        nm, i = cstr(i)
        if nm is None or i + 20 > len(data):
            return None
        size = struct.unpack("<I", data[i + 16:i + 20])[0]
        i += 20
        if nm == b"":
            break
        entries.append((nm, size))
    return entries, i


def claims_fit(data):
    r = parse_image(data)
    if r is None:
        return "broken"
    entries, start = r
    return "fits" if start + sum(sz for _, sz in entries) <= len(data) else "exceeds"


def region_of(layout, off):
    for name, a, b in layout["regions"]:
        if a <= off < b:
            return name
    return "end"


def gen_archive(rng, big=True):
    n = rng.randint(0, 8)
    names = []
    pool = ["a.sqf", "b.sqf", "config.cpp", "data.bin", "fn_init.sqf", "x.txt"]
    folders = ["", "", "sub\\", "functions\\", "a\\b\\"]
    entries = []
    for i in range(n):
        nm = rng.choice(folders) + rng.choice(pool)
        if nm in names:
            nm = "f%d_" % i + nm.replace("\\", "_")
        names.append(nm)
        size = rng.choice([0, 1, 2, 3, 5, 17, 100, 300, 700 if big else 40, 2048 if big else 64])
        # entries of 4-12 KiB, beyond the stream buffer of the ifstream behind pbofile::reader (8 KiB in libstdc++), so that a
        # read is served by more than one refill and seeks land outside the buffered window: at most one per archive, in
        # about one archive of five
        if big and not any(len(d) > 4000 for _, d in entries) and rng.random() < 0.06:
            size = rng.choice([4095, 4096, 4097, 6000, 8192, 8193, 12289])
        kind = rng.random()
        if kind < 0.4:
            data = bytes(rng.randrange(256) for _ in range(size))
        elif size > 4000:
            # position-dependent text: a window served from the wrong offset cannot look right
            data = "".join("// entry %s #%d line %d\n" % (nm, i, k) for k in range(size // 16 + 1)).encode()[:size]
        else:
            txt = ("// entry %s #%d\n" % (nm, i)) * (size // 12 + 1)
            data = txt.encode()[:size]
        entries.append((nm, data))
    props = []
    if rng.random() < 0.9:
        props.append(("prefix", rng.choice(["x\\addon", "myaddon", "z\\sub\\thing", "p"])))
    if rng.random() < 0.5:
        props.append(("product", "verif"))
    if rng.random() < 0.3:
        props.append(("version", "%d" % rng.randint(1, 9)))
    trailer = rng.random() < 0.5
    return props, entries, trailer


# ---------------------------------------------------------------------------------------------
# fault enumeration
# ---------------------------------------------------------------------------------------------
def images(img, layout, rng, quota):
    """yields (kind, region, bytes)"""
    n = len(img)
    yield ("intact", "none", img)
    for i in range(0, n):
        yield ("truncate", region_of(layout, i), img[:i])
    he = layout["header_end"]
    plan = []
    for i in range(he):
        for val in (0x00, 0xFF, img[i] ^ 0x01, img[i] ^ 0x80):
            if val != img[i]:
                plan.append(("byte", i, val))
    for kind, off in layout["fields"]:
        cur = struct.unpack("<I", img[off:off + 4])[0]
        for val in (0, 1, max(0, cur - 1), cur + 1, 2**31 - 1, 2**32 - 1, n, n + 1):
            if val != cur:
                plan.append(("field:" + kind, off, val))
    # terminators
    for i in range(he):
        if img[i] == 0:
            plan.append(("noterm", i, None))
    if len(plan) > quota:
        plan = rng.sample(plan, quota)
        plan.sort(key=lambda p: (p[1], p[0], p[2] or 0))
    for kind, off, val in plan:
        b = bytearray(img)
        if kind == "byte":
            b[off] = val
        elif kind.startswith("field"):
            b[off:off + 4] = struct.pack("<I", val)
        else:
            del b[off]
        yield (kind, region_of(layout, off), bytes(b))
    yield ("absent", "none", None)


def generate(rng, tier, run):
    props, entries, trailer = gen_archive(rng, big=(tier != "quick"))
    img, layout = pack(props, entries, trailer)
    quota = 400 if tier == "quick" else 4000
    items = []
    for kind, region, data in images(img, layout, rng, quota):
        path = rng.choice(["open"] * 6 + ["vfs"] * 5 + ["cli"]) if kind != "intact" else "all"
        items.append([kind, region, None if data is None else base64.b64encode(data).decode(), path])
    root = os.path.join(SCRATCH, "r%07d_%d" % (os.getpid(), run))
    case = {"props": props, "entries": [[n, base64.b64encode(d).decode()] for n, d in entries], "trailer": trailer,
            "size": len(img), "root": root, "items": items}
    B = 120
    case["batches"] = [list(range(i, min(len(items), i + B))) for i in range(0, len(items), B)]
    case["plans"] = [batch_plan(case, b) for b in case["batches"]]
    return case


def vfs_requests(case):
    prefix = dict(case["props"]).get("prefix")
    reqs = []
    for n, _ in case["entries"]:
        if prefix is not None:
            reqs.append((n, "\\" + prefix + "\\" + n))
            reqs.append((n, ("/" + prefix + "/" + n).replace("\\", "/")))
    return reqs


def item_steps(case, i):
    kind, region, data, path = case["items"][i]
    root = case["root"]
    d = os.path.join(root, "i%d" % i)
    f = os.path.join(d, "test.pbo")
    steps = [{"do": "mark", "idx": i}, {"do": "fs", "op": "rm", "path": d}, {"do": "fs", "op": "mkdir", "path": d}]
    if data is not None:
        steps.append({"do": "fs", "op": "write", "path": f, "b64": data})
    steps.append({"do": "fs", "op": "write", "path": os.path.join(d, "other.txt"), "text": "bystander"})
    steps.append({"do": "fs", "op": "snapshot", "path": d})
    paths = ["open", "vfs", "cli"] if path == "all" else [path]
    for p in paths:
        if p == "open":
            steps.append({"do": "pbo_open", "path": f})
        elif p == "vfs":
            vm = "v%d" % i
            steps.append({"do": "vm_new", "vm": vm, "template": False, "ops": "none", "conf": {"print_work": False}})   # the file layer needs no operators
            steps.append({"do": "pbo_map", "vm": vm, "path": f})
            for n, r in vfs_requests(case):
                steps.append({"do": "vfs_read", "vm": vm, "path": r})
            steps.append({"do": "vm_del", "vm": vm})
        else:
            reqs = vfs_requests(case)
            code = "; ".join('diag_log ["R", %d, loadFile "%s"]' % (j, r.replace('"', '""')) for j, (n, r) in enumerate(reqs[:6]) if all(32 <= ord(ch) < 127 for ch in r)) or "diag_log 1"
            steps.append({"do": "cli", "argv": ["--automated", "--suppress-welcome", "--no-execute-print", "--no-load-executable-dir", "--input-pbo", f, "--sqf", code], "cwd": d})
    steps.append({"do": "fs", "op": "snapshot", "path": d})
    steps.append({"do": "fs", "op": "chdir", "path": "/"})
    steps.append({"do": "fs", "op": "rm", "path": d})
    return steps


def batch_plan(case, idxs):
    steps = []
    for i in idxs:
        steps += item_steps(case, i)
    steps.append({"do": "fs", "op": "rm", "path": case["root"]})
    return {"prop": PROP, "steps": steps, "clock": {"per_instr_ns": 1000, "per_poll_ns": 100, "idle_jump": True},
            "limits": {"max_instr": 3000000, "max_events": 600000, "watchdog_s": 90 if len(idxs) > 1 else 20}, "observe": {"visits": False, "slices": False}}


def cleanup_disk(case):
    import shutil
    shutil.rmtree(case["root"], ignore_errors=True)


def prepare_disk(case, i):
    return None


def expand(case, hs):
    if case.get("expanded"):
        return None
    if not any("crash" in h or h.get("truncated") for h in hs):
        return None
    import re
    c = copy.deepcopy(case)
    c["expanded"] = True
    idxs = []
    for b, h in zip(case["batches"], hs):
        if "crash" in h:
            marks = re.findall(r"@step t-1 #\d+ mark", h["crash"].get("stderr", ""))
            first = max(0, len(marks) - 1)
            idxs += b[first:first + 6]
        elif h.get("truncated"):
            idxs += b[:6]
    idxs = idxs[:40]
    c["batches"] = [[i] for i in idxs]
    c["plans"] = [batch_plan(case, [i]) for i in idxs]
    return c


# ---------------------------------------------------------------------------------------------
# judging
# ---------------------------------------------------------------------------------------------
def judge(case, hs):
    V = []
    packed = {n: base64.b64decode(d) for n, d in case["entries"]}
    for idxs, h in zip(case["batches"], hs):
        if "crash" in h:
            if len(idxs) == 1:
                kind, region, data, path = case["items"][idxs[0]]
                site = crash_site(h["crash"])
                V.append(Violation("no-crash", "crash:%s:%s:%s" % (site.split("|")[0], site.split("|")[1], kind.split(":")[0]),
                                   "open path %s, fault %s in %s\n%s" % (path, kind, region, h["crash"].get("stderr", "")[-1800:])))
            else:
                V.append(Violation("no-crash", "crash:batch:" + crash_site(h["crash"]), h["crash"].get("stderr", "")[-1500:]))
            continue
        if h.get("truncated"):
            V.append(Violation("terminates", "hang:budget", "archive handling did not finish within the step budget"))
            continue
        segs = {}
        cur = None
        for e in h["events"]:
            if e[1] == "mark":
                cur = segs.setdefault(e[2], [])
            elif cur is not None:
                cur.append(e)
        for i in idxs:
            seg = segs.get(i)
            if seg is None:
                continue
            V += judge_item(case, i, seg, packed)
    out = {}
    for v in V:
        out.setdefault(v.key, v)
    return list(out.values())


def judge_item(case, i, seg, packed):
    kind, region, data, path = case["items"][i]
    V = []
    intact = kind == "intact"
    raw = b"" if data is None else base64.b64decode(data)
    size = len(raw)
    # what kind of damage this is, for the identity of a finding: fault kind, region hit, and whether the entries the
    # damaged table claims still fit into the file (nothing short of a checksum can tell such an image from a good one)
    k0 = kind.split(":")[0] if intact or data is None else "%s:%s:%s" % (kind.split(":")[0], region, claims_fit(raw))
    bound = (1 << 20) + 16 * size
    snaps = [e for e in seg if e[1] == "fs_snapshot"]
    if len(snaps) == 2 and snaps[0][3] != snaps[1][3]:
        before = {x[0]: x[1:] for x in snaps[0][3]}
        after = {x[0]: x[1:] for x in snaps[1][3]}
        created = sorted(set(after) - set(before))
        changed = sorted(n for n in before if n in after and before[n] != after[n])
        removed = sorted(set(before) - set(after))
        V.append(Violation("no-file-change", "files-changed:%s:%s" % ("created" if created else ("modified" if changed else "removed"), "absent" if data is None else "present"),
                           "fault %s (%s): created %r, modified %r, removed %r" % (kind, path, created, changed, removed)))
    props = dict(case["props"])
    for e in seg:
        if e[1] == "pbo":
            good, attrs, files, entries, exc, amax = e[3], e[4], e[5], e[6], e[7], e[8]
            if exc:
                V.append(Violation("no-exception", "exception:open:%s" % k0, "exception escaped pbofile: %s (fault %s in %s)" % (exc, kind, region)))
            if amax > bound:
                V.append(Violation("bounded-memory", "alloc:open:%s" % k0, "opening a %d byte image allocated %d bytes at once (fault %s in %s)" % (size, amax, kind, region)))
            got_attrs = {k: base64.b64decode(v).decode("latin-1") for k, v in attrs}
            got_files = [(base64.b64decode(n).decode("latin-1"), s) for n, s in files]
            if intact:
                if not good:
                    V.append(Violation("faithful", "intact-rejected:open", "a well-formed archive (%d entries, props %r) was rejected" % (len(packed), case["props"])))
                    continue
                for k, v in props.items():
                    if got_attrs.get(k) != v:
                        V.append(Violation("faithful", "intact:property", "property %s read as %r, packed %r" % (k, got_attrs.get(k), v)))
                if got_files != [(n, len(packed[n])) for n, _ in case["entries"]]:
                    V.append(Violation("faithful", "intact:entry-list", "entry list %r, packed %r" % (got_files[:6], [(n, len(packed[n])) for n, _ in case["entries"]][:6])))
            if good:
                for nb, esize, nread, content in entries:
                    name = base64.b64decode(nb).decode("latin-1")
                    got = base64.b64decode(content)
                    if name in packed:
                        if got != packed[name]:
                            V.append(Violation("faithful" if intact else "only-intact-entries", "%s:entry-bytes:open" % ("intact" if intact else "damaged:" + k0),
                                               "entry %r exposed with %d bytes that differ from the %d packed bytes (fault %s in %s)" % (name, len(got), len(packed[name]), kind, region)))
                    elif not intact and (esize > 0 and nread > 0):
                        V.append(Violation("only-intact-entries", "damaged:%s:phantom-entry:open" % k0, "damaged archive exposes entry %r (%d bytes) that was never packed (fault %s in %s)" % (name, nread, kind, region)))
        elif e[1] == "pbo_map":
            if e[3]:
                V.append(Violation("no-exception", "exception:map:%s" % k0, "exception escaped add_pbo_mapping: %s" % e[3]))
            if e[4] > bound:
                V.append(Violation("bounded-memory", "alloc:map:%s" % k0, "mapping a %d byte image allocated %d bytes at once (fault %s in %s)" % (size, e[4], kind, region)))
        elif e[1] == "vfs_read":
            req, found, phys, clen, content, exc, amax = e[2], e[3], e[4], e[5], e[6], e[7], e[8]
            if exc:
                V.append(Violation("no-exception", "exception:vfs:%s" % k0, "exception escaped the file layer for %r: %s" % (req, exc)))
            if amax > bound:
                V.append(Violation("bounded-memory", "alloc:vfs:%s" % k0, "reading %r from a %d byte image allocated %d bytes at once (fault %s in %s)" % (req, size, amax, kind, region)))
            name = None
            for n, r in vfs_requests(case):
                if r == req:
                    name = n
            got = base64.b64decode(content)
            if intact and name is not None:
                sep = "backslash" if "\\" in req else "slash"
                nested = "nested" if ("\\" in name or "\\" in props.get("prefix", "")) else "flat"
                if not found:
                    V.append(Violation("faithful", "intact:vfs-not-found:%s:%s" % (sep, nested), "entry %r of a well-formed archive is not reachable as %r" % (name, req)))
                elif got != packed[name]:
                    V.append(Violation("faithful", "intact:vfs-bytes:%s:%s" % (sep, nested), "entry %r read through the file layer as %r gives %d bytes, packed %d" % (name, req, len(got), len(packed[name]))))
            elif found and name is not None and phys.endswith(".pbo") and got != packed[name] and clen > 0:
                V.append(Violation("only-intact-entries", "damaged:%s:vfs-bytes" % k0, "damaged archive (fault %s in %s): %r gives %d bytes differing from the packed entry" % (kind, region, req, len(got))))
        elif e[1] == "cli":
            if e[5]:
                V.append(Violation("no-exception", "exception:cli:%s" % k0, "exception escaped cli::run with --input-pbo: %s (fault %s in %s)" % (e[5], kind, region)))
    return V


def signature(case, hs):
    if all("crash" in h for h in hs):
        return None
    m = hashlib.sha256()
    m.update(repr([(k, r, p) for k, r, d, p in case["items"]]).encode())
    m.update(repr(case["entries"]).encode())
    return m.hexdigest()[:16]


def stats(case, hs):
    kinds = {}
    regions = {}
    paths = {}
    for k, r, d, p in case["items"]:
        kinds[k.split(":")[0]] = kinds.get(k.split(":")[0], 0) + 1
        regions[r] = regions.get(r, 0) + 1
        paths[p] = paths.get(p, 0) + 1
    return {"executions": len(case["items"]), "archives": 1, "faults_fired": kinds, "regions_hit": regions, "open_paths": paths,
            "archive_bytes": case["size"]}


def sample_view(case):
    return {"props": case["props"], "entries": [[n, len(base64.b64decode(d))] for n, d in case["entries"]], "trailer": case["trailer"], "image_bytes": case["size"],
            "images": [[k, r, p] for k, r, d, p in case["items"][:3] + case["items"][len(case["items"]) // 2:len(case["items"]) // 2 + 3]]}


def shrink_candidates(case):
    if len(case["items"]) > 1:
        for i in range(len(case["items"])):
            c = copy.deepcopy(case)
            c["items"] = [case["items"][i]]
            c["batches"] = [[0]]
            c["plans"] = [batch_plan(c, [0])]
            c["expanded"] = True
            yield c
