"""C16 — the virtual file system resolves deterministically and never leaves the mapped roots.

Simulated disk: per run a seeded directory tree under a scratch directory; every file holds a unique token naming
its physical path; decoy files live outside every mapped root (siblings and parents). 1..4 mappings with nested,
overlapping and duplicated virtual prefixes and several roots per prefix. Requests come from the file layer API
(get_info + read_file), from scripts (loadFile, preprocessFile, execVM) and from #include at nesting depth <= 3,
spelled with .. segments, slash/backslash mixes, duplicate separators, blanks, absolute physical paths inside and
outside the roots, and directories. Faults: the resolved target is deleted, truncated to 0..3 bytes or replaced
by a directory between resolution and read."""
import copy
import hashlib
import os
import posixpath

from ..core import Violation, crash_site
from .. import progcheck as pc

PROP = "C16"
LEVEL = "exploration"
RUNS = {"quick": 2500, "thorough": 120000}
TIME_CAP = {"quick": 150, "thorough": 1500}
RULE = ("seeded directory trees x 1-4 mappings (nested / overlapping prefixes, several roots per prefix) x 6-20 requests (API, loadFile, "
        "preprocessFile, execVM, #include depth <= 3) x disk faults between resolve and read; a request is non-trivial when it is not a plain "
        "existing name (.., mixed separators, nesting, overlap, absolute physical path, directory, disk fault); distinct by hash of "
        "(mapping shape, request spelling class, entry point, fault kind)")
REAL = ["src/fileio/default.cpp (impl_default over a real scratch directory tree)", "src/runtime/fileio.cpp", "src/parser/preprocessor (#include)",
        "src/operators/ops_generic.cpp loadFile/preprocessFile/execVM"]
STUB = ["the disk content is written by the simulator; disk faults are applied between get_info and read_file by the harness step", "logger", "system_clock"]
ASSUMPTIONS = ["exact expectations are asserted for requests whose meaning the statement fixes (prefix replacement of the deepest mapped prefix, .. "
               "resolved lexically inside the virtual tree, first root containing the file); for everything else only containment "
               "(never a decoy, never outside the roots, content = content of the resolved file) and crash freedom are asserted"]
SCRATCH = "/var/tmp/verif-c16"


def tok(path):
    """the unique token a file holds: its path below the scratch root (so that the content does not depend on where the scratch root is)"""
    import re
    m = re.search(r"/r\d+_\d+/(.*)$", path)
    return "TOKEN=%s" % (m.group(1) if m else path)


def file_text(path, includes=()):
    s = ""
    for inc in includes:
        s += '#include "%s"\n' % inc
    s += "t__ '%s';\n" % tok(path)
    return s


# ---------------------------------------------------------------------------------------------
# generation
# ---------------------------------------------------------------------------------------------
def generate(rng, tier, run):
    root = os.path.join(SCRATCH, "r%07d_%d" % (os.getpid(), run))
    nroots = rng.randint(1, 4)
    roots = ["m%d" % i for i in range(nroots)]
    files = {}     # relative to root -> text
    names = ["a.sqf", "b.sqf", "c.hpp", "d.sqf"]
    # directory names that coincide with virtual prefix segments let a shallower root shadow a deeper prefix
    subdirs = ["", "sub/", "sub/deep/", "other/", "b/", "y/", "x/", "x/y/", "s/"]
    for r in roots:
        for _ in range(rng.randint(1, 8)):
            rel = r + "/" + rng.choice(subdirs) + rng.choice(names)
            files[rel] = None
    # decoys: siblings of the roots and files next to them
    for d in ["outside/a.sqf", "outside/sub/b.sqf", "secret.sqf", "m0_evil/a.sqf"]:
        files[d] = None
    prefixes = ["/a", "/a/b", "/x", "/a", "/x/y", "/"]
    mappings = []
    for r in roots:
        mappings.append([r, rng.choice(prefixes)])
    if rng.random() < 0.3 and nroots >= 1:
        mappings.append([roots[0] + "/sub", rng.choice(["/s", "/a/s"])])
        files.setdefault(roots[0] + "/sub/a.sqf", None)
    # include chains (relative includes between files of one root)
    includes = {}
    keys = sorted(k for k in files if k.split("/")[0] in roots)
    for k in keys:
        if rng.random() < 0.3:
            same = [x for x in keys if x != k and x.split("/")[0] == k.split("/")[0]]
            if same:
                t = rng.choice(same)
                relp = posixpath.relpath(t, posixpath.dirname(k))
                if rng.random() < 0.4:
                    relp = relp.replace("/", "\\")
                includes[k] = [relp]
    # break include cycles: only allow edges from lexicographically larger to smaller names
    for k in list(includes):
        tgt = posixpath.normpath(posixpath.join(posixpath.dirname(k), includes[k][0].replace("\\", "/")))
        if not (tgt < k):
            del includes[k]
    for k in files:
        files[k] = file_text(os.path.join(root, k), includes.get(k, ()))
    case = {"root": root, "roots": roots, "files": files, "mappings": mappings, "includes": includes}
    # the physical side of a mapping may be spelled with a trailing separator or a redundant "." segment
    case["phys_suffix"] = {str(i): rng.choice(["/", "/.", "//"]) for i in range(len(mappings)) if rng.random() < 0.2}
    case["requests"] = [gen_request(rng, case) for _ in range(rng.randint(6, 20))]
    case["plan"] = plan_of(case)
    return case


def vsegs(v):
    return [x for x in v.replace("\\", "/").split("/") if x]


def model_resolve(case, v):
    """the statement's rule for a normalised absolute virtual path: replace the deepest mapped prefix of the path by
    its physical directory; with several roots on that prefix the first containing the file wins; nothing else"""
    segs = vsegs(v)
    best = None
    for phys_rel, virt in case["mappings"]:
        ps = vsegs(virt)
        if segs[:len(ps)] == ps and (best is None or len(ps) > best):
            best = len(ps)
    if best is None:
        return None
    for phys_rel, virt in case["mappings"]:
        ps = vsegs(virt)
        if len(ps) == best and segs[:best] == ps:
            rel = "/".join([phys_rel] + segs[best:])
            if rel in case["files"]:
                return os.path.join(case["root"], rel)
    return None


def virtual_universe(case):
    """every virtual path under which some file of some root could be addressed"""
    out = set()
    for phys_rel, virt in case["mappings"]:
        base = phys_rel + "/"
        for k in case["files"]:
            if k.startswith(base):
                out.add(posixpath.normpath(virt + "/" + k[len(base):]).replace("//", "/"))
    return sorted(out)


def spell(rng, v):
    """alternative spellings of a virtual path that must resolve identically"""
    kind = rng.choice(["plain", "backslash", "mixed", "dupsep", "blanks", "dotdot-inside", "dot"])
    s = v
    if kind == "backslash":
        s = v.replace("/", "\\")
    elif kind == "mixed":
        s = "".join(("\\" if (c == "/" and rng.random() < 0.5) else c) for c in v)
    elif kind == "dupsep":
        parts = v.split("/")
        i = rng.randrange(1, len(parts)) if len(parts) > 1 else 0
        s = "/".join(parts[:i]) + "//" + "/".join(parts[i:]) if i else v
    elif kind == "blanks":
        s = "  " + v + " "
    elif kind == "dotdot-inside":
        parts = v.split("/")
        if len(parts) >= 3:
            i = rng.randrange(1, len(parts))
            s = "/".join(parts[:i] + [rng.choice(["zz", "sub", "b", "x"]), ".."] + parts[i:])
        else:
            kind = "plain"
    elif kind == "dot":
        kind = "plain"
    return kind, s


def gen_request(rng, case):
    uni = virtual_universe(case)
    vf = [v for v in uni if model_resolve(case, v)]
    shadowed = [v for v in uni if not model_resolve(case, v)]
    root = case["root"]
    entry = rng.choice(["api", "api", "api", "loadFile", "preprocessFile", "execVM", "include"])
    r = rng.random()
    req = {"entry": entry, "fault": None}
    if r < 0.08 and shadowed:
        v = rng.choice(shadowed)
        req.update({"cls": "shadowed", "path": v, "virt": None})
    elif r < 0.5 and vf:
        v = rng.choice(vf)
        kind, s = spell(rng, v)
        req.update({"cls": "existing:" + kind, "path": s, "virt": v})
    elif r < 0.6:
        req.update({"cls": "missing", "path": rng.choice(["/a/nope.sqf", "/zz/a.sqf", "/a/b/c/d/e.sqf", "nope.sqf"]), "virt": None})
    elif r < 0.8:
        # traversal attempts towards the decoys
        pfx = rng.choice([m[1] for m in case["mappings"]])
        ups = "/".join([".."] * rng.randint(1, 4))
        target = rng.choice(["outside/a.sqf", "secret.sqf", "m0_evil/a.sqf", "outside/sub/b.sqf"])
        s = rng.choice([pfx + "/" + ups + "/" + target, pfx + "/sub/" + ups + "/" + ups + "/" + target, ups + "/" + target, pfx + "\\" + ups.replace("/", "\\") + "\\" + target.replace("/", "\\")])
        req.update({"cls": "traversal", "path": s, "virt": None})
    elif r < 0.9:
        # absolute physical paths
        inside = rng.random() < 0.5
        if inside:
            cands = sorted(k for k in case["files"] if k.split("/")[0] in case["roots"])
            k = rng.choice(cands)
            req.update({"cls": "physical-inside", "path": os.path.join(root, k), "virt": None, "phys": os.path.join(root, k)})
        else:
            k = rng.choice(["outside/a.sqf", "secret.sqf", "m0_evil/a.sqf"])
            req.update({"cls": "physical-outside", "path": os.path.join(root, k), "virt": None})
    else:
        pfx = rng.choice([m[1] for m in case["mappings"]])
        req.update({"cls": "directory", "path": rng.choice([pfx, pfx + "/sub", pfx + "/", "/"]), "virt": None})
    if entry == "api" and req["cls"].startswith("existing") and rng.random() < 0.35:
        req["fault"] = rng.choice(["delete", "truncate0", "truncate1", "truncate2", "truncate3", "mkdir"])
    return req


def plan_of(case):
    root = case["root"]
    steps = [{"do": "fs", "op": "rm", "path": root}]
    for k, text in sorted(case["files"].items()):
        steps.append({"do": "fs", "op": "write", "path": os.path.join(root, k), "text": text})
    steps.append({"do": "fs", "op": "chdir", "path": root})
    steps.append({"do": "vm_new", "vm": "a", "template": False, "conf": {"print_work": False},
                  "mappings": [[os.path.join(root, p) + case.get("phys_suffix", {}).get(str(i), ""), v] for i, (p, v) in enumerate(case["mappings"])]})
    steps.append({"do": "fs", "op": "snapshot", "path": root})
    for i, r in enumerate(case["requests"]):
        steps.append({"do": "mark", "idx": i})
        e = r["entry"]
        lit = r["path"].replace('"', '""')
        if e == "api":
            st = {"do": "vfs_read", "vm": "a", "path": r["path"]}
            if r.get("fault"):
                st["between"] = r["fault"]
            steps.append(st)
        elif e in ("loadFile", "preprocessFile"):
            steps += [{"do": "load", "vm": "a", "text": 't__ ["%s", %d, %s "%s"];' % (e, i, e, lit), "name": os.path.join(root, "req%d.sqf" % i), "preprocess": False},
                      {"do": "action", "vm": "a", "name": "start"}, {"do": "action_if_failed", "vm": "a", "name": "abort"}]
        elif e == "execVM":
            steps += [{"do": "load", "vm": "a", "text": 't__ ["execVM", %d]; [%d] execVM "%s"; t__ ["execVM-done", %d];' % (i, i, lit, i), "name": os.path.join(root, "req%d.sqf" % i), "preprocess": False},
                      {"do": "action", "vm": "a", "name": "start"}, {"do": "action_if_failed", "vm": "a", "name": "abort"}]
        else:
            # the including file lives in the first root (so that relative requests have a place to start from)
            inc_from = os.path.join(root, case["roots"][0], "includer%d.sqf" % i)
            steps += [{"do": "load", "vm": "a", "text": 't__ ["inc", %d];\n#include "%s"\nt__ ["inc-done", %d];' % (i, r["path"], i), "name": inc_from},
                      {"do": "action", "vm": "a", "name": "start"}, {"do": "action_if_failed", "vm": "a", "name": "abort"}]
    steps.append({"do": "fs", "op": "snapshot", "path": root})
    steps.append({"do": "fs", "op": "chdir", "path": "/"})
    steps.append({"do": "fs", "op": "rm", "path": root})
    return {"prop": PROP, "steps": steps, "clock": {"per_instr_ns": 1000, "per_poll_ns": 100, "idle_jump": True},
            "limits": {"max_instr": 200000, "max_events": 100000, "watchdog_s": 30}, "observe": {"visits": False, "slices": False}}


def cleanup_disk(case):
    import shutil
    shutil.rmtree(case["root"], ignore_errors=True)


def prepare_disk(case, i):
    return None


# ---------------------------------------------------------------------------------------------
# reference resolver (the statement's reading)
# ---------------------------------------------------------------------------------------------
def expected_for(case, r):
    """returns ('file', physical path) | ('notfound',) | ('unspecified',)"""
    cls = r["cls"]
    if cls.startswith("existing"):
        return ("file", model_resolve(case, r["virt"]))
    if cls in ("missing", "traversal", "physical-outside", "directory", "shadowed"):
        return ("notfound",)
    if cls == "physical-inside":
        return ("file-any-root", r["phys"])
    return ("unspecified",)


def decoy_tokens(case):
    root = case["root"]
    return [tok(os.path.join(root, k)) for k in case["files"] if k.split("/")[0] not in case["roots"]]


def resolve_virtual(case, v):
    return model_resolve(case, v)


def physical_to_virtual(case, rel):
    """every virtual spelling of a physical file (relative to the scratch root) that the mappings allow"""
    out = []
    for phys_rel, virt in case["mappings"]:
        if rel.startswith(phys_rel + "/"):
            out.append(posixpath.normpath(virt + "/" + rel[len(phys_rel) + 1:]).replace("//", "/"))
    return out


def includes_closure(case, virt, depth=0):
    """tokens a file yields when preprocessed: its includes (depth first) then itself. "Relative paths are taken
    against the including file": where the including file's virtual directory and its physical directory lead to
    different files (the mappings reshape the tree) the statement does not say which is meant, and the closure is
    reported as undetermined (None) so that only containment is judged."""
    root = case["root"]
    phys = resolve_virtual(case, virt)
    if phys is None or depth > 6:
        return None
    rel = os.path.relpath(phys, root)
    out = []
    for inc in case["includes"].get(rel, []):
        incn = inc.replace("\\", "/")
        tgt = posixpath.normpath(posixpath.join(posixpath.dirname(virt), incn))
        answers = {resolve_virtual(case, tgt)}
        prel = posixpath.normpath(posixpath.join(posixpath.dirname(rel), incn))
        pv = physical_to_virtual(case, prel)
        if not pv:
            answers.add(None)
        for v in pv:
            answers.add(resolve_virtual(case, v))
        if len(answers) != 1:
            return None
        sub = includes_closure(case, tgt, depth + 1)
        if sub is None:
            return None
        out += sub
    out.append(tok(phys))
    return out


def judge(case, hs):
    h = hs[0]
    if "crash" in h:
        site = crash_site(h["crash"])
        # which request was in flight
        import re
        marks = re.findall(r"@step t-1 #\d+ mark", h["crash"].get("stderr", ""))
        idx = len(marks) - 1
        r = case["requests"][idx] if 0 <= idx < len(case["requests"]) else {"cls": "?", "entry": "?", "fault": None}
        return [Violation("no-crash", "crash:%s:%s:%s:%s" % (site.split("|")[0], r["entry"], r["cls"].split(":")[0], r.get("fault") or "nofault"),
                          "request %r via %s (fault %s)\n%s" % (r.get("path"), r["entry"], r.get("fault"), h["crash"].get("stderr", "")[-1800:]))]
    if h.get("truncated"):
        return [Violation("terminates", "hang:budget", "the request sequence did not finish within the step budget")]
    V = []
    ev = h["events"]
    decoys = decoy_tokens(case)
    root = case["root"]
    segs = {}
    cur = None
    for e in ev:
        if e[1] == "mark":
            cur = segs.setdefault(e[2], [])
        elif cur is not None:
            cur.append(e)
    roots_abs = [os.path.join(root, p) for p, v in case["mappings"]]
    for i, r in enumerate(case["requests"]):
        seg = segs.get(i, [])
        exp = expected_for(case, r)
        cls = r["cls"]
        c0 = cls.split(":")[0]
        entry = r["entry"]
        texts = []        # every piece of content that came back for this request
        found = None
        phys = None
        for e in seg:
            if e[1] == "vfs_read":
                found = bool(e[3])
                phys = e[4]
                import base64
                texts.append(base64.b64decode(e[6]).decode("latin-1"))
                if e[7]:
                    V.append(Violation("no-exception", "exception:%s:%s:%s" % (entry, c0, r.get("fault") or "nofault"), "exception escaped the file layer for %r: %s" % (r["path"], e[7])))
            elif e[1] == "t":
                texts.append(e[4])
            elif e[1] == "act" and e[12]:
                V.append(Violation("no-exception", "exception:%s:%s" % (entry, c0), "exception escaped the VM for %s %r: %s" % (entry, r["path"], e[12])))
        blob = "\n".join(texts)
        # ---- containment (always)
        for d in decoys:
            if d in blob:
                V.append(Violation("containment", "decoy-served:%s:%s" % (entry, c0), "request %r via %s returned content of a file outside every mapped root: %s" % (r["path"], entry, d)))
                break
        if phys and found and not any(phys == ra or phys.startswith(ra + "/") for ra in roots_abs):
            V.append(Violation("containment", "resolved-outside:%s" % c0, "request %r resolved to %r, outside the mapped roots" % (r["path"], phys)))
        if r.get("fault"):
            continue      # after a disk fault only crash freedom and containment are judged
        # ---- exact expectation
        if entry == "api":
            if exp[0] == "file":
                if not found:
                    V.append(Violation("resolution", "not-resolved:%s:api" % cls, "request %r should resolve to %s but was not found" % (r["path"], exp[1])))
                elif os.path.normpath(phys) != exp[1]:
                    V.append(Violation("resolution", "wrong-file:%s:api" % cls, "request %r resolved to %s, expected %s (mappings %r)" % (r["path"], phys, exp[1], case["mappings"])))
                elif tok(exp[1]) not in blob:
                    V.append(Violation("content", "wrong-content:%s:api" % cls, "request %r resolved to %s but the content read is not that file's" % (r["path"], phys)))
            elif exp[0] == "notfound" and found and texts and texts[0].strip():
                V.append(Violation("resolution", "found-unexpectedly:%s:api" % c0, "request %r should be reported as not found but resolved to %s" % (r["path"], phys)))
        elif entry in ("loadFile", "preprocessFile"):
            if exp[0] == "file":
                want = includes_closure(case, r["virt"]) if entry == "preprocessFile" else [tok(exp[1])]
                missing = [w for w in (want or []) if w not in blob]
                if want is not None and missing:
                    V.append(Violation("content", "wrong-content:%s:%s" % (cls, entry), "%s %r should yield the content of %s; missing %r; got %r" % (entry, r["path"], exp[1], missing[:2], blob[:200])))
            elif exp[0] == "notfound" and "TOKEN=" in blob:
                V.append(Violation("resolution", "found-unexpectedly:%s:%s" % (c0, entry), "%s %r should be reported as not found but returned %r" % (entry, r["path"], blob[:200])))
        elif entry == "execVM":
            ran = [t for t in texts if "TOKEN=" in t]
            if exp[0] == "file":
                want = includes_closure(case, r["virt"])
                got = [t.strip('"') for t in ran]
                if want is not None and got != want:
                    V.append(Violation("content", "execvm-did-not-run-file:%s" % cls, "execVM %r should run %s (markers %r) but produced %r" % (r["path"], exp[1], want, got[:4])))
            elif exp[0] == "notfound" and ran:
                V.append(Violation("resolution", "found-unexpectedly:%s:execVM" % c0, "execVM %r should not find a file but ran %r" % (r["path"], ran[:2])))
        else:
            inc = [t.strip('"') for t in texts if "TOKEN=" in t]
            loaded = [e for e in seg if e[1] == "load"]
            if exp[0] == "file":
                want = includes_closure(case, r["virt"])
                if want is not None and inc != want:
                    V.append(Violation("content", "include-wrong:%s" % cls, "#include %r should expand to the files %r, got %r (load %s)" % (r["path"], want, inc[:4], loaded[0][3] if loaded else "?")))
            elif exp[0] == "notfound" and inc:
                V.append(Violation("resolution", "found-unexpectedly:%s:include" % c0, "#include %r should fail but included %r" % (r["path"], inc[:2])))
    # nothing on disk may change
    snaps = [e for e in ev if e[1] == "fs_snapshot"]
    if len(snaps) >= 2 and snaps[0][3] != snaps[-1][3]:
        before = {x[0]: x for x in snaps[0][3]}
        after = {x[0]: x for x in snaps[-1][3]}
        diff = sorted(k for k in set(before) | set(after) if before.get(k) != after.get(k))
        V.append(Violation("read-only", "disk-changed", "resolving and reading changed the disk: %r" % diff[:6]))
    out = {}
    for v in V:
        out.setdefault(v.key, v)
    return list(out.values())


def signature(case, hs):
    h = hs[0]
    if "crash" in h:
        return None
    m = hashlib.sha256()
    m.update(repr(sorted(v for p, v in case["mappings"])).encode())
    m.update(repr([(r["entry"], r["cls"], r.get("fault")) for r in case["requests"]]).encode())
    if all(r["cls"] == "existing:plain" and not r.get("fault") for r in case["requests"]):
        return None
    return m.hexdigest()[:16]


def stats(case, hs):
    cl = {}
    en = {}
    fl = {}
    for r in case["requests"]:
        cl[r["cls"]] = cl.get(r["cls"], 0) + 1
        en[r["entry"]] = en.get(r["entry"], 0) + 1
        if r.get("fault"):
            fl[r["fault"]] = fl.get(r["fault"], 0) + 1
    return {"executions": 1, "requests": len(case["requests"]), "request_classes": cl, "entries": en, "faults_fired": fl, "mappings": len(case["mappings"]), "files": len(case["files"])}


def sample_view(case):
    return {"mappings": case["mappings"], "files": sorted(case["files"])[:12], "includes": case["includes"],
            "requests": [{k: v for k, v in r.items() if k in ("entry", "cls", "path", "fault")} for r in case["requests"][:8]]}


def shrink_candidates(case):
    for i in range(len(case["requests"]) - 1, -1, -1):
        if len(case["requests"]) > 1:
            c = copy.deepcopy(case)
            del c["requests"][i]
            c["plan"] = plan_of(c)
            yield c
    for i in range(len(case["mappings"]) - 1, -1, -1):
        if len(case["mappings"]) > 1:
            c = copy.deepcopy(case)
            del c["mappings"][i]
            c["plan"] = plan_of(c)
            yield c
