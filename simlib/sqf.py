"""SQF core language: AST (JSON-able lists), printer, reference interpreter.

The reference interpreter implements only what the property statements (C02, C03, C04, C05) say about
the constructs the generator emits; see DESIGN.md appendix B. Nothing here looks at the C++ sources at
run time.

Expression nodes
  ["num", n] ["bool", b] ["str", s] ["nil"] ["arr", [e..]] ["lvar", "_n"] ["gvar", "n"]
  ["un", op, e]            op: ! neg count
  ["bin", op, a, b]        op: + - * == != < > <= >= && || select
  ["lazy", op, a, blk]     a && {blk} / a || {blk}
  ["call", blk] ["callarg", e, blk] ["callv", var_expr, arg|None]  (call of code held in a variable)
  ["code", blk]            code literal
  ["if", c, blkT, blkE|None]
  ["switch", e, [items]]   items: ["case", e, blk|None] | ["default", blk] | statement
  ["try", blk, blk] ["except", blk, blk]
  ["count", blk, e] ["selectc", e, blk] ["apply", e, blk] ["findIf", e, blk] ["forEach", blk, e]
  ["for", "_i", from, to, step|None, blk] ["while", blkC, blkB]
  ["isNilc", blk] ["isNils", "name"] ["getvar", ns, "name"] ["fault", tag]
Statement nodes (a block is a list of statements)
  ["t", k, e|None] ["lset", n, e] ["lpriv", n, e] ["priv", [n..]] ["gset", n, e] ["setvar", ns, n, e]
  ["params", e|None, [n..]] ["e", expr] ["exitWith", c, blk] ["scopeName", n] ["breakOut", n, e|None]
  ["throw", e] ["with", ns, blk] ["spawn", gname|None, e, blk] ["sleep", d]
"""

NS_NAMES = {"missionNamespace": "missionnamespace", "uiNamespace": "uinamespace",
            "parsingNamespace": "parsingnamespace", "profileNamespace": "profilenamespace"}


# =============================================================================================
# printer
# =============================================================================================
def sqf_str(s):
    return '"' + s.replace('"', '""') + '"'


def p_block(b):
    return "{ " + " ".join(p_stmt(s) for s in b) + " }"


def p_expr(e):
    k = e[0]
    if k == "num":
        v = e[1]
        if v < 0:
            return "(%s)" % fmt_num(v)
        return fmt_num(v)
    if k == "bool":
        return "true" if e[1] else "false"
    if k == "str":
        return sqf_str(e[1])
    if k == "nil":
        return "nil"
    if k == "arr":
        return "[" + ", ".join(p_expr(x) for x in e[1]) + "]"
    if k in ("lvar", "gvar"):
        return e[1]
    if k == "un":
        op = {"neg": "-", "!": "!", "count": "count "}[e[1]]
        return "(%s%s)" % (op, p_expr(e[2]))
    if k == "bin":
        return "(%s %s %s)" % (p_expr(e[2]), e[1], p_expr(e[3]))
    if k == "lazy":
        return "(%s %s %s)" % (p_expr(e[2]), e[1], p_block(e[3]))
    if k == "call":
        return "(call %s)" % p_block(e[1])
    if k == "callarg":
        return "(%s call %s)" % (p_expr(e[1]), p_block(e[2]))
    if k == "callv":
        if e[2] is None:
            return "(call %s)" % p_expr(e[1])
        return "(%s call %s)" % (p_expr(e[2]), p_expr(e[1]))
    if k == "code":
        return p_block(e[1])
    if k == "if":
        if e[3] is None:
            return "(if %s then %s)" % (p_expr(e[1]), p_block(e[2]))
        return "(if %s then %s else %s)" % (p_expr(e[1]), p_block(e[2]), p_block(e[3]))
    if k == "switch":
        items = []
        for it in e[2]:
            if it[0] == "case":
                if it[2] is None:
                    items.append("case %s;" % p_expr(it[1]))
                else:
                    items.append("case %s: %s;" % (p_expr(it[1]), p_block(it[2])))
            elif it[0] == "default":
                items.append("default %s;" % p_block(it[1]))
            else:
                items.append(p_stmt(it))
        return "(switch %s do { %s })" % (p_expr(e[1]), " ".join(items))
    if k == "try":
        return "(try %s catch %s)" % (p_block(e[1]), p_block(e[2]))
    if k == "except":
        return "(%s except__ %s)" % (p_block(e[1]), p_block(e[2]))
    if k == "count":
        return "(%s count %s)" % (p_block(e[1]), p_expr(e[2]))
    if k == "selectc":
        return "(%s select %s)" % (p_expr(e[1]), p_block(e[2]))
    if k == "apply":
        return "(%s apply %s)" % (p_expr(e[1]), p_block(e[2]))
    if k == "findIf":
        return "(%s findIf %s)" % (p_expr(e[1]), p_block(e[2]))
    if k == "forEach":
        return "(%s forEach %s)" % (p_block(e[1]), p_expr(e[2]))
    if k == "for":
        s = 'for "%s" from %s to %s' % (e[1], p_expr(e[2]), p_expr(e[3]))
        if e[4] is not None:
            s += " step %s" % p_expr(e[4])
        return "(%s do %s)" % (s, p_block(e[5]))
    if k == "while":
        return "(while %s do %s)" % (p_block(e[1]), p_block(e[2]))
    if k == "isNilc":
        return "(isNil %s)" % p_block(e[1])
    if k == "isNils":
        return "(isNil %s)" % sqf_str(e[1])
    if k == "getvar":
        return "(%s getVariable %s)" % (e[1], sqf_str(e[2]))
    if k == "fault":
        return "(fault__ %d)" % e[1]
    if k == "exc_has":
        return '("[FAULTOP] %d" in (str _exception))' % e[1]
    raise ValueError("p_expr: " + repr(e))


def p_stmt(s):
    k = s[0]
    if k == "t":
        if s[2] is None:
            return "t__ [%d];" % s[1]
        return "t__ [%d, %s];" % (s[1], p_expr(s[2]))
    if k == "lset" or k == "gset":
        return "%s = %s;" % (s[1], p_expr(s[2]))
    if k == "lpriv":
        return "private %s = %s;" % (s[1], p_expr(s[2]))
    if k == "priv":
        if len(s[1]) == 1:
            return "private %s;" % sqf_str(s[1][0])
        return "private [%s];" % ", ".join(sqf_str(n) for n in s[1])
    if k == "setvar":
        return "%s setVariable [%s, %s];" % (s[1], sqf_str(s[2]), p_expr(s[3]))
    if k == "params":
        names = "[%s]" % ", ".join(sqf_str(n) for n in s[2])
        if s[1] is None:
            return "params %s;" % names
        return "%s params %s;" % (p_expr(s[1]), names)
    if k == "e":
        return p_expr(s[1]) + ";"
    if k == "exitWith":
        return "if %s exitWith %s;" % (p_expr(s[1]), p_block(s[2]))
    if k == "scopeName":
        return "scopeName %s;" % sqf_str(s[1])
    if k == "breakOut":
        if s[2] is None:
            return "breakOut %s;" % sqf_str(s[1])
        return "%s breakOut %s;" % (p_expr(s[2]), sqf_str(s[1]))
    if k == "throw":
        return "throw %s;" % p_expr(s[1])
    if k == "with":
        return "with %s do %s;" % (s[1], p_block(s[2]))
    if k == "spawn":
        t = "%s spawn %s" % (p_expr(s[2]), p_block(s[3]))
        if s[1] is not None:
            return "%s = %s;" % (s[1], t)
        return t + ";"
    if k == "sleep":
        return "sleep %s;" % fmt_num(s[1])
    raise ValueError("p_stmt: " + repr(s))


def p_program(block):
    return " ".join(p_stmt(s) for s in block)


def fmt_num(v):
    """C's %g for the values we use."""
    if isinstance(v, bool):
        return "true" if v else "false"
    s = "%g" % v
    return s


# =============================================================================================
# rendering of model values (must agree with sim::render in sim/core.cpp)
# =============================================================================================
class Code:
    __slots__ = ("block",)

    def __init__(self, block):
        self.block = block


class Handle:
    __slots__ = ("sid",)

    def __init__(self, sid):
        self.sid = sid


class NSRef:
    __slots__ = ("name",)

    def __init__(self, name):
        self.name = name


class Exc:
    """the value bound to _exception by except__ (opaque; only 'contains tag' is observable)"""
    __slots__ = ("tags",)

    def __init__(self, tags):
        self.tags = tags


def render(v):
    if v is None:
        return "nil"
    if isinstance(v, bool):
        return "true" if v else "false"
    if isinstance(v, (int, float)):
        return fmt_num(v)
    if isinstance(v, str):
        return sqf_str(v)
    if isinstance(v, list):
        return "[" + ",".join(render(x) for x in v) + "]"
    if isinstance(v, Code):
        return "<code>"
    if isinstance(v, Handle):
        return "SCRIPT"
    return "<?>"


# =============================================================================================
# reference interpreter
# =============================================================================================
class SqfError(Exception):
    def __init__(self, tag, kind="error"):
        Exception.__init__(self, "sqf error %r" % (tag,))
        self.tag = tag
        self.kind = kind


class _ExitWith(Exception):
    def __init__(self, value):
        self.value = value


class _BreakOut(Exception):
    def __init__(self, name, value):
        self.name = name
        self.value = value


class _Throw(Exception):
    def __init__(self, value):
        self.value = value


class Unmodelled(Exception):
    """raised when the program leaves the fragment the model speaks about; the run is then only
    checked for crashes/invariants, never for equality"""


class Scope:
    __slots__ = ("vars", "name", "ns", "is_loop")

    def __init__(self, ns):
        self.vars = {}
        self.name = None
        self.ns = ns


class Quirks:
    """switches that reproduce recorded (not repaired) defects; all off = the property's semantics"""

    def __init__(self, names=()):
        self.names = set(names)

    def __contains__(self, n):
        return n in self.names


class Script:
    def __init__(self, sid, block, this, ns, scheduled):
        self.sid = sid
        self.block = block
        self.this = this
        self.ns = ns
        self.scheduled = scheduled
        self.trace = []          # [(k, rendered value or None)]
        self.result = None       # final value
        self.error = None        # tag of the unhandled error, if any
        self.finished = False
        self.fault_points = 0


class Interp:
    def __init__(self, max_steps=200000, quirks=(), max_loop=10000):
        self.namespaces = {}
        self.scripts = []
        self.steps = 0
        self.max_steps = max_steps
        self.q = Quirks(quirks)
        self.max_loop = max_loop
        self.cur = None
        self.handler_entries = {}    # id(handler block) -> count
        self.cov = {}                # node kind -> dynamic executions (coverage of the model = what the run exercised)

    # ---- namespaces
    def ns(self, name):
        return self.namespaces.setdefault(name, {})

    # ---- driver
    def run_program(self, block, this=None, scheduled=False):
        """Runs main, then every spawned script in spawn order (scripts share no data by construction)."""
        main = Script(len(self.scripts), block, this, "missionnamespace", scheduled)
        self.scripts.append(main)
        i = main.sid
        first_error = None
        while i < len(self.scripts):
            s = self.scripts[i]
            self.run_script(s)
            if s.error is not None and first_error is None:
                first_error = s
            i += 1
        return main

    def run_script(self, s):
        self.cur = s
        self.stack = []
        try:
            sc = Scope(s.ns)
            sc.vars["_this"] = s.this
            if s.sid != 0 or s.scheduled:
                sc.vars["_thisscript"] = Handle(s.sid)
            s.result = self.block_in_scope(s.block, sc)
        except SqfError as e:
            s.error = e.tag
        except _Throw as e:
            s.error = ("throw", render(e.value))
        except _BreakOut as e:
            raise Unmodelled("breakOut to unknown scope")
        s.finished = True

    def tick(self):
        self.steps += 1
        if self.steps > self.max_steps:
            raise Unmodelled("model step budget")

    # ---- scopes
    def push(self, ns=None):
        if ns is None:
            ns = self.stack[-1].ns if (self.stack and "with_not_inherited" not in self.q) else (self.cur.ns if not self.stack else "missionnamespace")
        sc = Scope(ns)
        self.stack.append(sc)
        return sc

    def block_in_scope(self, block, sc, raw=False):
        self.stack.append(sc)
        try:
            v = self.run_block(block)
            # a block whose last statement leaves no value contributes nil to its caller
            return v if raw else (None if v is NOVALUE else v)
        except _ExitWith as e:
            return e.value
        except _BreakOut as e:
            if sc.name is not None and sc.name == e.name:
                return e.value
            raise
        finally:
            self.stack.pop()

    def new_block(self, block, ns=None, bind=None, raw=False):
        """evaluates a block in a fresh child scope; returns its value"""
        if ns is None:
            if self.stack and "with_not_inherited" not in self.q:
                ns = self.stack[-1].ns
            else:
                ns = "missionnamespace"
        sc = Scope(ns)
        if bind:
            sc.vars.update(bind)
        return self.block_in_scope(block, sc, raw)

    def run_block(self, block):
        val = None
        for st in block:
            val = self.stmt(st)
        return val

    def lookup(self, name):
        n = name.lower()
        for sc in reversed(self.stack):
            if n in sc.vars:
                return True, sc.vars[n]
        return False, None

    def assign_local(self, name, value):
        n = name.lower()
        for sc in reversed(self.stack):
            if n in sc.vars:
                sc.vars[n] = value
                return
        self.stack[-1].vars[n] = value

    # ---- statements
    def stmt(self, s):
        self.tick()
        k = s[0]
        if k not in ("t", "e"):
            self.cov[k] = self.cov.get(k, 0) + 1
        if k == "t":
            v = None if s[2] is None else self.expr(s[2])
            self.cur.trace.append((s[1], None if s[2] is None else render(v)))
            return None
        if k == "lset":
            v = self.expr(s[2])
            self.assign_local(s[1], v)
            return NOVALUE
        if k == "lpriv":
            v = self.expr(s[2])
            self.stack[-1].vars[s[1].lower()] = v
            return NOVALUE
        if k == "priv":
            for n in s[1]:
                self.stack[-1].vars.setdefault(n.lower(), None)
            return None
        if k == "gset":
            v = self.expr(s[2])
            self.ns(self.stack[-1].ns)[s[1].lower()] = v
            return NOVALUE
        if k == "setvar":
            v = self.expr(s[3])
            self.ns(NS_NAMES[s[1]])[s[2].lower()] = v
            return None
        if k == "params":
            src = self.expr(s[1]) if s[1] is not None else self.lookup("_this")[1]
            if not isinstance(src, list):
                src = [src]
            for i, n in enumerate(s[2]):
                self.stack[-1].vars[n.lower()] = src[i] if i < len(src) else None
            return None  # the value of params is not fixed by the statements; this VM yields nil
        if k == "e":
            return self.expr(s[1])
        if k == "exitWith":
            c = self.expr(s[1])
            if c is True:
                self.cov["exitWith_taken"] = self.cov.get("exitWith_taken", 0) + 1
                v = self.new_block(s[2])
                raise _ExitWith(v)
            return None
        if k == "scopeName":
            self.stack[-1].name = s[1]
            return None
        if k == "breakOut":
            v = None if s[2] is None else self.expr(s[2])
            raise _BreakOut(s[1], v)
        if k == "throw":
            v = self.expr(s[1])
            raise _Throw(v)
        if k == "with":
            return self.new_block(s[2], ns=NS_NAMES[s[1]])
        if k == "spawn":
            arg = self.expr(s[2])
            sc = Script(len(self.scripts), s[3], arg, "missionnamespace", True)
            self.scripts.append(sc)
            h = Handle(sc.sid)
            if s[1] is not None:
                self.ns(self.stack[-1].ns)[s[1].lower()] = h
                return NOVALUE
            return h
        if k == "sleep":
            if not self.cur.scheduled:
                raise SqfError("sleep-unscheduled")
            return None
        raise ValueError("stmt " + repr(s))

    # ---- expressions
    def expr(self, e):
        self.tick()
        k = e[0]
        if k not in ("num", "bool", "str", "nil", "arr", "lvar", "gvar", "bin", "un"):
            self.cov[k] = self.cov.get(k, 0) + 1
        if k == "num":
            return float(e[1])
        if k == "bool":
            return e[1]
        if k == "str":
            return e[1]
        if k == "nil":
            return None
        if k == "arr":
            return [self.expr(x) for x in e[1]]
        if k == "lvar":
            return self.lookup(e[1])[1]
        if k == "gvar":
            return self.ns(self.stack[-1].ns).get(e[1].lower())
        if k == "code":
            return Code(e[1])
        if k == "un":
            v = self.expr(e[2])
            if e[1] == "!":
                return not v
            if e[1] == "neg":
                return -v
            if e[1] == "count":
                return float(len(v))
        if k == "bin":
            a = self.expr(e[2])
            b = self.expr(e[3])
            return self.binop(e[1], a, b)
        if k == "lazy":
            a = self.expr(e[2])
            if e[1] == "&&":
                if not a:
                    return False
                return self.new_block(e[3])
            else:
                if a:
                    return True
                return self.new_block(e[3])
        if k == "call":
            return self.new_block(e[1], bind={"_this": self.lookup("_this")[1]})
        if k == "callarg":
            arg = self.expr(e[1])
            return self.new_block(e[2], bind={"_this": arg})
        if k == "callv":
            arg = self.lookup("_this")[1] if e[2] is None else self.expr(e[2])
            code = self.expr(e[1])
            if not isinstance(code, Code):
                raise Unmodelled("call of non-code")
            return self.new_block(code.block, bind={"_this": arg})
        if k == "if":
            c = self.expr(e[1])
            if c is True:
                return self.new_block(e[2])
            if e[3] is not None:
                return self.new_block(e[3])
            return None
        if k == "switch":
            return self.switch(e)
        if k == "try":
            depth = len(self.stack)
            try:
                return self.new_block(e[1])
            except _Throw as t:
                del self.stack[depth:]
                return self.new_block(e[2], bind={"_exception": t.value})
        if k == "except":
            depth = len(self.stack)
            try:
                return self.new_block(e[1])
            except SqfError as err:
                del self.stack[depth:]
                self.handler_entries[id(e[2])] = self.handler_entries.get(id(e[2]), 0) + 1
                return self.new_block(e[2], bind={"_exception": Exc([err.tag])})
        if k in ("count", "selectc", "apply", "findIf", "forEach"):
            return self.iterate(e)
        if k == "for":
            return self.for_loop(e)
        if k == "while":
            return self.while_loop(e)
        if k == "isNilc":
            v = self.new_block(e[1], raw=True)
            if v is NOVALUE:
                raise SqfError(("novalue", "isNil"), "natural")
            return v is None
        if k == "isNils":
            n = e[1]
            if n.startswith("_"):
                found, v = self.lookup(n)
                if found:
                    return v is None
                # falls back to the global of that name (never defined for underscore names)
                return True
            return self.ns(self.stack[-1].ns).get(n.lower()) is None
        if k == "getvar":
            return self.ns(NS_NAMES[e[1]]).get(e[2].lower())
        if k == "fault":
            self.cur.fault_points += 1
            raise SqfError(e[1])
        if k == "exc_has":
            ex = self.lookup("_exception")[1]
            return isinstance(ex, Exc) and e[1] in ex.tags
        raise ValueError("expr " + repr(e))

    def binop(self, op, a, b):
        if op == "+":
            return a + b
        if op == "-":
            return a - b
        if op == "*":
            return a * b
        if op == "==":
            return a == b
        if op == "!=":
            return a != b
        if op == "<":
            return a < b
        if op == ">":
            return a > b
        if op == "<=":
            return a <= b
        if op == ">=":
            return a >= b
        if op == "&&":
            return a and b
        if op == "||":
            return a or b
        if op == "select":
            return a[int(round(b))]
        raise ValueError(op)

    def switch(self, e):
        val = self.expr(e[1])
        sc = Scope(self.stack[-1].ns if "with_not_inherited" not in self.q else "missionnamespace")
        self.stack.append(sc)
        target = None
        has_match = False
        armed = False
        try:
            for it in e[2]:
                self.tick()
                if it[0] == "case":
                    cv = self.expr(it[1])
                    if cv == val and type(cv) == type(val):
                        armed = True
                    if it[2] is not None:
                        if not has_match and armed:
                            target = it[2]
                            has_match = True
                            armed = False
                            break
                elif it[0] == "default":
                    if not has_match:
                        target = it[1]
                else:
                    self.stmt(it)
            if target is None:
                return None
            # the selected code runs in the switch scope (same frame, variables cleared? no: kept)
            return self.run_block_catching(target, sc)
        except _ExitWith as x:
            return x.value
        except _BreakOut as b:
            if sc.name is not None and sc.name == b.name:
                return b.value
            raise
        finally:
            self.stack.pop()

    def run_block_catching(self, block, sc):
        return self.run_block(block)

    def iterate(self, e):
        k = e[0]
        if k in ("count", "forEach"):
            blk, arr = e[1], self.expr(e[2])
        else:
            arr, blk = self.expr(e[1]), e[2]
        if not isinstance(arr, list):
            raise Unmodelled("iterate over non-array")
        items = list(arr)
        if k == "count":
            acc = 0.0
        elif k in ("selectc", "apply"):
            acc = []
        else:
            acc = None
        if not items:
            return {"count": 0.0, "selectc": [], "apply": [], "findIf": -1.0, "forEach": None}[k]
        ns = self.stack[-1].ns if "with_not_inherited" not in self.q else "missionnamespace"
        last = None
        for i, x in enumerate(items):
            sc = Scope(ns)
            sc.vars["_x"] = x
            if k == "forEach":
                sc.vars["_foreachindex"] = float(i)
            self.stack.append(sc)
            try:
                v = self.run_block(blk)
            except _ExitWith as ex:
                return ex.value
            except _BreakOut as b:
                if sc.name is not None and sc.name == b.name:
                    return b.value
                raise
            finally:
                self.stack.pop()
            if v is NOVALUE:
                v = None
                if k != "forEach":
                    raise SqfError(("novalue", k), "natural")
            if k == "count":
                if v is True:
                    acc += 1
                elif v is False:
                    pass
                elif v is None:
                    pass  # warning only
                else:
                    raise SqfError(("nonbool", k), "natural")
            elif k == "selectc":
                if v is True:
                    acc.append(x)
                elif v is False or v is None:
                    pass
                else:
                    raise SqfError(("nonbool", k), "natural")
            elif k == "apply":
                acc.append(v)
            elif k == "findIf":
                if v is True:
                    return float(i)
                if v is not False:
                    raise SqfError(("nonbool", k), "natural")
            else:
                last = v
        if k == "findIf":
            return -1.0
        if k == "forEach":
            return last
        return acc

    def for_loop(self, e):
        var = e[1].lower()
        a = self.expr(e[2])
        b = self.expr(e[3])
        step = 1 if e[4] is None else self.expr(e[4])
        if step != 0 and ((step > 0 and a > b) or (step < 0 and b > a)):
            return None
        ns = self.stack[-1].ns if "with_not_inherited" not in self.q else "missionnamespace"
        cur = a
        last = None
        n = 0
        while True:
            n += 1
            if n > 100000:
                raise Unmodelled("for loop too long")
            sc = Scope(ns)
            sc.vars[var] = cur
            self.stack.append(sc)
            try:
                last = self.run_block(e[5])
                v = sc.vars.get(var)
            except _ExitWith as ex:
                return ex.value
            except _BreakOut as bo:
                if sc.name is not None and sc.name == bo.name:
                    return bo.value
                raise
            finally:
                self.stack.pop()
            if isinstance(v, bool) or not isinstance(v, (int, float)):
                raise SqfError(("forvar", "for"), "natural")
            upd = v + step
            if (upd > b) if step >= 0 else (upd < b):
                break
            cur = upd
        return None if last is NOVALUE else last

    def while_loop(self, e):
        ns = self.stack[-1].ns if "with_not_inherited" not in self.q else "missionnamespace"
        n = 0
        last = None
        while True:
            sc = Scope(ns)
            self.stack.append(sc)
            try:
                c = self.run_block(e[1])
            except _ExitWith as ex:
                return ex.value
            finally:
                self.stack.pop()
            if c is NOVALUE:
                raise SqfError(("novalue", "while"), "natural")
            if c is not True:
                if c is False or c is None:
                    break
                raise SqfError(("nonbool", "while"), "natural")
            sc = Scope(ns)
            self.stack.append(sc)
            try:
                last = self.run_block(e[2])
            except _ExitWith as ex:
                return ex.value
            except _BreakOut as bo:
                if sc.name is not None and sc.name == bo.name:
                    return bo.value
                raise
            finally:
                self.stack.pop()
            n += 1
            if not self.cur.scheduled and self.max_loop > 0 and n >= self.max_loop:
                break
        return WHILEVALUE


class _NoValue:
    def __repr__(self):
        return "NOVALUE"


NOVALUE = _NoValue()      # statement that leaves no value (assignment): a block ending in it yields nil
WHILEVALUE = _NoValue()   # value of a while construct: not fixed by the statement, never compared
