"""Kernel of the deterministic-simulation driver.

* SimVM      – one long-lived `simvm` subprocess; `run(plan)` returns the history (or a crash record)
* run_check  – seeded batch: generate -> execute -> judge, on N worker processes, merged by run index
* gating     – every suspected violation is re-executed (same history hash), shrunk, written as a
               replay file and replayed in a fresh process before it is reported
* known findings, evidence writer

Nothing here reads a clock or a PRNG on behalf of the system under test; wall-clock is used only for
reporting throughput and for the batch time cap.
"""
import hashlib
import json
import multiprocessing as mp
import os
import random
import subprocess
import sys
import time
import traceback

VERIF = os.path.dirname(os.path.dirname(os.path.abspath(__file__)))
BUILD = os.environ.get("VERIF_BUILD", os.path.join(VERIF, "build"))
SIMVM = os.path.join(BUILD, "simvm")
REPLAYS = os.path.join(VERIF, "replays")
EVIDENCE = os.path.join(VERIF, "evidence")
KNOWN = os.path.join(VERIF, "KNOWN_FINDINGS.txt")

MASK = (1 << 64) - 1


def splitmix(*parts):
    """Mix integers/strings into one 64-bit seed (pure function, no hash randomisation)."""
    x = 0x9E3779B97F4A7C15
    for p in parts:
        if isinstance(p, str):
            p = int.from_bytes(hashlib.sha256(p.encode()).digest()[:8], "big")
        x = (x + (p & MASK) + 0x9E3779B97F4A7C15) & MASK
        z = x
        z = ((z ^ (z >> 30)) * 0xBF58476D1CE4E5B9) & MASK
        z = ((z ^ (z >> 27)) * 0x94D049BB133111EB) & MASK
        x = z ^ (z >> 31)
    return x


def rng_for(seed, prop, run):
    return random.Random(splitmix(seed, prop, run))


def ensure_build(quiet=True):
    r = subprocess.run([sys.executable, os.path.join(VERIF, "tools", "build.py")] + (["-q"] if quiet else []))
    if r.returncode != 0:
        print("BUILD FAILED", flush=True)
        sys.exit(2)


class SimVM:
    def __init__(self):
        self.p = None

    def start(self):
        self.p = subprocess.Popen([SIMVM], stdin=subprocess.PIPE, stdout=subprocess.PIPE,
                                  stderr=subprocess.DEVNULL, bufsize=0)

    def run(self, plan):
        """Execute one plan. Returns dict: history ({'events':..}) or {'crash': {...}}."""
        data = (json.dumps(plan, separators=(",", ":")) + "\n").encode()
        for attempt in range(3):
            if self.p is None or self.p.poll() is not None:
                self.start()
            try:
                self.p.stdin.write(data)
                self.p.stdin.flush()
                line = self._readline()
            except (BrokenPipeError, OSError):
                line = b""
            if not line:
                self.close()
                continue
            tag, body = line[:2], line[2:]
            if tag == b"H ":
                return json.loads(body)
            if tag == b"C ":
                return {"crash": json.loads(body)}
            self.close()
        return {"crash": {"exit": -2, "signal": 0, "stderr": "simvm protocol failure", "partial": 0}}

    def _readline(self):
        chunks = []
        f = self.p.stdout
        while True:
            b = f.read(65536)
            if not b:
                return b"".join(chunks)
            chunks.append(b)
            if b.endswith(b"\n"):
                return b"".join(chunks)

    def close(self):
        if self.p is not None:
            try:
                self.p.stdin.close()
            except Exception:
                pass
            try:
                self.p.kill()
            except Exception:
                pass
            try:
                self.p.wait(timeout=5)
            except Exception:
                pass
            self.p = None


_SCRATCH_PID = None


def _norm_scratch(x):
    """Scratch directories carry the pid of the generating process (fixed width), so that concurrent checks never share
    one. The pid is not part of the simulated history: it is masked before hashing, also inside base64 payloads."""
    global _SCRATCH_PID
    import re
    import base64
    if _SCRATCH_PID is None:
        _SCRATCH_PID = re.compile(r"(/var/tmp/verif-c\d\d/r)\d{7}_")
    if isinstance(x, str):
        if "/var/tmp/verif-c" in x:
            return _SCRATCH_PID.sub(r"\1P_", x)
        if len(x) >= 24 and len(x) % 4 == 0 and re.fullmatch(r"[A-Za-z0-9+/]+=*", x):
            try:
                raw = base64.b64decode(x)
            except Exception:    # noqa
                return x
            if b"/var/tmp/verif-c" in raw:
                return "b64:" + _SCRATCH_PID.sub(r"\1P_", raw.decode("latin-1"))
        return x
    if isinstance(x, list):
        return [_norm_scratch(y) for y in x]
    if isinstance(x, dict):
        return {k: _norm_scratch(v) for k, v in x.items()}
    return x


def history_hash(h):
    if "crash" in h:
        c = h["crash"]
        return "crash:%s:%s:%s" % (c.get("exit"), c.get("signal"), crash_site(c))
    m = hashlib.sha256()
    dump = json.dumps(h.get("events"), separators=(",", ":"))
    if "/var/tmp/verif-c" in dump or '"vfs_read"' in dump or '"pbo' in dump:
        dump = json.dumps(_norm_scratch(h.get("events")), separators=(",", ":"))
    m.update(dump.encode())
    m.update(json.dumps(h.get("monitor"), separators=(",", ":")).encode())
    m.update(json.dumps(h.get("final"), sort_keys=True).encode())
    m.update(str(h.get("truncated")).encode())
    return m.hexdigest()[:20]


def crash_site(c):
    """First /repo/src function of a sanitizer/backtrace report -> stable key for a crash."""
    import re
    err = c.get("stderr", "")
    kind = "crash"
    m = re.search(r"ERROR: AddressSanitizer: ([\w-]+)", err)
    if m:
        kind = "asan-" + m.group(1)
    elif "runtime error:" in err:
        m2 = re.search(r"runtime error: ([^\n]{0,60})", err)
        kind = "ubsan"
        if m2:
            txt = re.sub(r"0x[0-9a-f]+", "ADDR", m2.group(1))
            txt = re.sub(r"\d+", "N", txt)
            kind = "ubsan-" + txt.strip().replace(" ", "_")[:40]
    elif "@@WATCHDOG" in err:
        kind = "hang"
    elif "@@TERMINATE" in err:
        kind = "terminate"
    elif c.get("signal"):
        kind = "signal%d" % c["signal"]
    site = "?"
    for line in err.splitlines():
        if kind in ("hang", "asan-stack-overflow"):
            break      # where the watchdog interrupts a loop / which frame of a runaway recursion overflows is arbitrary
        mm = re.search(r"#\d+ 0x[0-9a-f]+ in (.+?) /repo/src/([\w/.\-]+):(\d+)", line)
        if mm:
            fn = mm.group(1)
            fn = re.sub(r"\(.*", "", fn)
            site = "%s@%s" % (fn.strip(), mm.group(2))
            break
    last = ""
    for line in err.splitlines():
        if line.startswith("@step") or line.startswith("@action") or line.startswith("@api") or line.startswith("@parse") or line.startswith("@cli") or line.startswith("@pbo"):
            last = line[1:].split(" #")[0] if line.startswith("@step") else line[1:]
    return "%s|%s|%s" % (kind, site.replace(" ", "_"), last.strip().replace(" ", "_"))


# --------------------------------------------------------------------------------------------
# violations / known findings
# --------------------------------------------------------------------------------------------
class Violation:
    __slots__ = ("rule", "key", "detail")

    def __init__(self, rule, key, detail=""):
        self.rule = rule      # oracle rule that failed
        self.key = key        # stable identity used for known-finding matching and shrinking
        self.detail = detail

    def to_json(self):
        return {"rule": self.rule, "key": self.key, "detail": self.detail}

    def __repr__(self):
        return "Violation(%s, %s, %s)" % (self.rule, self.key, self.detail[:200])


def load_known(prop):
    """Returns {key: description} for 'finding:' lines of this property. 'fixed:' lines suppress nothing."""
    out = {}
    if not os.path.exists(KNOWN):
        return out
    for line in open(KNOWN):
        line = line.strip()
        if not line.startswith("finding:"):
            continue
        body = line[len("finding:"):].strip()
        parts = body.split(None, 2)
        if len(parts) < 2:
            continue
        kv = dict(p.split("=", 1) for p in parts[:2] if "=" in p)
        if kv.get("property") != prop:
            continue
        out[kv.get("key", "")] = parts[2] if len(parts) > 2 else ""
    return out


# --------------------------------------------------------------------------------------------
# worker side
# --------------------------------------------------------------------------------------------
_W = {}


def _winit(modname, seed, tier, recheck_mod):
    import importlib
    _W["mod"] = importlib.import_module(modname)
    _W["sim"] = SimVM()
    _W["seed"] = seed
    _W["tier"] = tier
    _W["recheck"] = recheck_mod


def execute_case(mod, sim, case):
    """Runs all plans of a case; returns list of histories."""
    plans = case["plans"] if "plans" in case else [case["plan"]]
    hs = []
    prep = getattr(mod, "prepare_disk", None)
    for i, plan in enumerate(plans):
        if prep:
            prep(case, i)
        hs.append(sim.run(plan))
    if prep and hasattr(mod, "cleanup_disk"):
        mod.cleanup_disk(case)
    return hs


def nondet_detail(mod, hs, hs2):
    out = []
    for i, (a, b) in enumerate(zip(hs, hs2)):
        if history_hash(a) != history_hash(b):
            d = "execution %d of the case differs between two runs of the very same plan" % i
            if "events" in a and "events" in b:
                for ea, eb in zip(a["events"], b["events"]):
                    if ea != eb:
                        d += ": %s vs %s" % (json.dumps(ea)[:300], json.dumps(eb)[:300])
                        break
            out.append(d)
    return "; ".join(out[:2]) or "histories differ"


def executions_differ(mod, sim, case, tries=6):
    """re-executes a case until two executions differ; returns (hs_a, hs_b) or None"""
    first = execute_case(mod, sim, case)
    hh = [history_hash(h) for h in first]
    for _ in range(tries - 1):
        again = execute_case(mod, sim, case)
        if [history_hash(h) for h in again] != hh:
            return first, again
    return None


def _wrun(run):
    mod, sim, seed, tier = _W["mod"], _W["sim"], _W["seed"], _W["tier"]
    t0 = time.time()
    try:
        rng = rng_for(seed, mod.PROP, run)
        case = mod.generate(rng, tier, run)
        hs = execute_case(mod, sim, case)
        if hasattr(mod, "expand"):
            bigger = mod.expand(case, hs)     # e.g. enumerate every fault position of this program
            if bigger is not None:
                case = bigger
                hs = execute_case(mod, sim, case)
        viols = mod.judge(case, hs)
        sig = mod.signature(case, hs)
        hh = [history_hash(h) for h in hs]
        nondet = None
        recheck = _W["recheck"]
        if recheck and getattr(mod, "NONDET_KEY", None):
            recheck = max(1, recheck // 5)       # the property is about determinism: re-execute more often
        if recheck and run % recheck == 0:
            hs2 = execute_case(mod, sim, case)
            hh2 = [history_hash(h) for h in hs2]
            if hh2 != hh:
                if getattr(mod, "NONDET_KEY", None):
                    # the property under test IS determinism: a re-execution that differs is a violation, not a harness fault
                    viols = list(viols) + [Violation("deterministic", mod.NONDET_KEY, nondet_detail(mod, hs, hs2))]
                else:
                    nondet = (hh, hh2)
        stats = mod.stats(case, hs) if hasattr(mod, "stats") else {}
        return {"run": run, "viols": [v.to_json() for v in viols], "sig": sig, "hash": hh, "nondet": nondet,
                "stats": stats, "case": case if (viols or run < 3) else None, "dt": time.time() - t0}
    except Exception:
        return {"run": run, "error": traceback.format_exc(), "viols": [], "sig": None, "hash": [], "nondet": None,
                "stats": {}, "case": None, "dt": time.time() - t0}


# --------------------------------------------------------------------------------------------
# shrinking (generic greedy over candidates offered by the property module)
# --------------------------------------------------------------------------------------------
def shrink(mod, sim, case, key, max_exec=300):
    """Greedy: try candidates from mod.shrink_candidates(case); keep one iff the same key still fails."""
    if not hasattr(mod, "shrink_candidates"):
        return case, 0
    execs = 0
    improved = True
    while improved and execs < max_exec:
        improved = False
        for cand in mod.shrink_candidates(case):
            if execs >= max_exec:
                break
            execs += 1
            try:
                hs = execute_case(mod, sim, cand)
                vs = mod.judge(cand, hs)
            except Exception:
                continue
            if any(v.key == key for v in vs):
                case = cand
                improved = True
                break
    return case, execs


def replay_file(mod, path, sim=None):
    """Re-executes a replay file; returns list of violations (possibly empty)."""
    doc = json.load(open(path))
    own = sim is None
    if own:
        sim = SimVM()
    try:
        if doc.get("expected", {}).get("key") == getattr(mod, "NONDET_KEY", "<none>"):
            pair = executions_differ(mod, sim, doc["case"])
            hs = pair[0] if pair else []
            vs = [Violation("deterministic", mod.NONDET_KEY, nondet_detail(mod, pair[0], pair[1]))] if pair else []
        else:
            hs = execute_case(mod, sim, doc["case"])
            vs = mod.judge(doc["case"], hs)
    finally:
        if own:
            sim.close()
    return doc, vs, hs


# --------------------------------------------------------------------------------------------
# batch driver
# --------------------------------------------------------------------------------------------
def run_check(modname, tier, n_runs, workers=None, time_cap_s=None, level="exploration", recheck_mod=50):
    import importlib
    mod = importlib.import_module(modname)
    prop = mod.PROP
    seed = int(os.environ.get("VERIF_SEED", "1"))
    t_start = time.time()
    ensure_build()
    t0 = time.time()          # the batch time cap does not include the (possibly cold) build
    workers = workers or min(16, os.cpu_count() or 4)
    workers = int(os.environ.get("VERIF_WORKERS", workers))
    known = load_known(prop)
    os.makedirs(REPLAYS, exist_ok=True)
    os.makedirs(EVIDENCE, exist_ok=True)

    results = {}
    errors = []
    nondet = []
    ctx = mp.get_context("fork")
    capped = False
    with ctx.Pool(workers, initializer=_winit, initargs=(modname, seed, tier, recheck_mod)) as pool:
        it = pool.imap_unordered(_wrun, range(n_runs), chunksize=4)
        for r in it:
            results[r["run"]] = r
            if r.get("error"):
                errors.append(r)
            if r.get("nondet"):
                nondet.append(r)
            if time_cap_s and time.time() - t0 > time_cap_s:
                capped = True
                pool.terminate()
                break
    if errors:
        print("HARNESS ERROR in run %d:\n%s" % (errors[0]["run"], errors[0]["error"]), flush=True)
        sys.exit(2)
    if nondet:
        print("HARNESS NOT DETERMINISTIC: run %d hashes %s" % (nondet[0]["run"], nondet[0]["nondet"]), flush=True)
        sys.exit(2)

    runs = sorted(results)
    # ---- classify violations
    by_key = {}
    for i in runs:
        for v in results[i]["viols"]:
            by_key.setdefault(v["key"], []).append(i)
    known_hit = {}
    new_keys = []
    for key in sorted(by_key):
        if key in known:
            known_hit[key] = len(by_key[key])
        else:
            new_keys.append(key)

    if len(new_keys) > 5 or os.environ.get("VERIF_LIST_KEYS"):
        for key in new_keys:
            print("  new key: %-70s runs=%d first=%d" % (key, len(by_key[key]), by_key[key][0]), flush=True)
    violations_out = []
    sim = SimVM()
    exit_code = 0
    try:
        nd_last = getattr(mod, "NONDET_KEY", None)
        ordered = [k for k in new_keys if k != nd_last][:5] + [k for k in new_keys if k == nd_last]
        for key in ordered:
            i = by_key[key][0]
            case = results[i]["case"]
            if case is None:
                case = mod.generate(rng_for(seed, prop, i), tier, i)
                if hasattr(mod, "expand"):
                    bigger = mod.expand(case, execute_case(mod, sim, case))
                    if bigger is not None:
                        case = bigger
            nd_key = getattr(mod, "NONDET_KEY", None)
            if nd_key and key != nd_key:
                # a verdict that rests on executions which differ from run to run is reported as what it is
                hs_a = execute_case(mod, sim, case)
                hs_b = execute_case(mod, sim, case)
                if [history_hash(h) for h in hs_a] != [history_hash(h) for h in hs_b]:
                    if nd_key in [v["key"] for v in violations_out]:
                        continue
                    key = nd_key
                    by_key.setdefault(key, []).append(i)
            if key == nd_key:
                pair = executions_differ(mod, sim, case)
                if pair is None:
                    if exit_code == 1:
                        # other violations of this run are confirmed and replayable; a difference that does not come back is only noted
                        print("NOTE: run %d differed between two executions once; six further executions agree (not reported)" % i, flush=True)
                        continue
                    print("HARNESS NOT DETERMINISTIC: run %d differed once, six further executions agree" % i, flush=True)
                    sys.exit(2)
                safe = "".join(c if c.isalnum() else "_" for c in key)[:60]
                path = os.path.join(REPLAYS, "%s-%d-%d-%s.json" % (prop, seed, i, safe))
                v0 = Violation("deterministic", key, nondet_detail(mod, pair[0], pair[1]))
                with open(path, "w") as f:
                    json.dump({"property": prop, "seed": seed, "run": i, "tier": tier, "shrink_execs": 0, "expected": v0.to_json(),
                               "history_hash": [history_hash(h) for h in pair[0]], "case": case}, f, indent=1)
                r = subprocess.run([sys.executable, os.path.join(VERIF, "checks", "check.py"), prop, "--replay", path, "--quiet"],
                                   stdout=subprocess.PIPE, stderr=subprocess.STDOUT, text=True)
                if r.returncode != 1:
                    print("HARNESS NOT DETERMINISTIC: fresh replay of %s gave exit %d\n%s" % (path, r.returncode, r.stdout[-2000:]), flush=True)
                    sys.exit(2)
                print("VIOLATION property=%s replay=%s" % (prop, path), flush=True)
                print("  rule=%s key=%s runs=%d detail=%s" % (v0.rule, key, len(by_key[key]), v0.detail[:600]), flush=True)
                violations_out.append({"key": key, "replay": path, "runs": len(by_key[key])})
                exit_code = 1
                continue
            # gate 1: same plan, same verdict twice
            hs_a = execute_case(mod, sim, case)
            hs_b = execute_case(mod, sim, case)
            if [history_hash(h) for h in hs_a] != [history_hash(h) for h in hs_b]:
                print("HARNESS NOT DETERMINISTIC while confirming key=%s run=%d" % (key, i), flush=True)
                sys.exit(2)
            vs = mod.judge(case, hs_a)
            if not any(v.key == key for v in vs):
                print("HARNESS NOT DETERMINISTIC: violation key=%s of run %d did not reproduce" % (key, i), flush=True)
                sys.exit(2)
            small, execs = shrink(mod, sim, case, key)
            hs = execute_case(mod, sim, small)
            vs = [v for v in mod.judge(small, hs) if v.key == key]
            safe = "".join(c if c.isalnum() else "_" for c in key)[:60]
            path = os.path.join(REPLAYS, "%s-%d-%d-%s.json" % (prop, seed, i, safe))
            with open(path, "w") as f:
                json.dump({"property": prop, "seed": seed, "run": i, "tier": tier, "shrink_execs": execs,
                           "expected": vs[0].to_json(), "history_hash": [history_hash(h) for h in hs],
                           "case": small}, f, indent=1)
            # gate 2: fresh process replay
            r = subprocess.run([sys.executable, os.path.join(VERIF, "checks", "check.py"), prop, "--replay", path, "--quiet"],
                               stdout=subprocess.PIPE, stderr=subprocess.STDOUT, text=True)
            if r.returncode != 1:
                print("HARNESS NOT DETERMINISTIC: fresh replay of %s gave exit %d\n%s" % (path, r.returncode, r.stdout[-2000:]), flush=True)
                sys.exit(2)
            print("VIOLATION property=%s replay=%s" % (prop, path), flush=True)
            print("  rule=%s key=%s runs=%d detail=%s" % (vs[0].rule, key, len(by_key[key]), vs[0].detail[:600]), flush=True)
            violations_out.append({"key": key, "replay": path, "runs": len(by_key[key])})
            exit_code = 1
    finally:
        sim.close()

    for key in sorted(known_hit):
        print("KNOWN-FINDING: property=%s %s -- %s (%d runs)" % (prop, key, known[key], known_hit[key]), flush=True)

    # ---- evidence
    sigs = {}
    for i in runs:
        s = results[i]["sig"]
        if s is not None:
            sigs[s] = sigs.get(s, 0) + 1
    agg = {}
    for i in runs:
        for k, v in (results[i].get("stats") or {}).items():
            if isinstance(v, (int, float)):
                agg[k] = agg.get(k, 0) + v
            elif isinstance(v, dict):
                d = agg.setdefault(k, {})
                for kk, vv in v.items():
                    d[kk] = d.get(kk, 0) + vv
    wall = time.time() - t_start
    samples = []
    for i in runs[:3]:
        c = results[i].get("case")
        if c is not None and hasattr(mod, "sample_view"):
            samples.append(mod.sample_view(c))
        elif c is not None:
            samples.append(c)
    if not samples:
        c = mod.generate(rng_for(seed, prop, 0), tier, 0)
        samples.append(mod.sample_view(c) if hasattr(mod, "sample_view") else c)
    ev = {
        "property_id": prop, "tier": tier, "seed": seed, "level": level,
        "coverage": {
            "evaluations": int(agg.get("executions", len(runs))),
            "cases": len(runs),
            "distinct_nontrivial": len(sigs),
            "rule": getattr(mod, "RULE", ""),
            "samples": samples,
            "exhaustive": False,
            "runs_per_hour": int(len(runs) / max(wall, 1e-6) * 3600),
            "stopped_by_time_cap": capped,
            "aggregate": agg,
            "known_findings_hit": known_hit,
            "real_components": getattr(mod, "REAL", []),
            "stub_components": getattr(mod, "STUB", []),
            "workers": workers,
        },
        "assumptions": getattr(mod, "ASSUMPTIONS", []),
        "wall_s": round(wall, 2),
        "violations": len(violations_out),
    }
    if hasattr(mod, "evidence_extra"):
        ev["coverage"].update(mod.evidence_extra(agg))
    with open(os.path.join(EVIDENCE, "%s.json" % prop), "w") as f:
        json.dump(ev, f, indent=1)
    print("%s %s: runs=%d distinct_nontrivial=%d known=%d new=%d wall=%.1fs" % (
        prop, tier, len(runs), len(sigs), len(known_hit), len(new_keys), wall), flush=True)
    return exit_code
