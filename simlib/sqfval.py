"""Parser for values rendered by simvm (`render()` in sim/core.cpp): SQF literal syntax.

numbers -> int/float, strings -> str, arrays -> list, true/false -> bool, nil -> None,
HM{[k,v],...} -> ('HM', [[k,v],...]), anything else -> Raw(text).
"""


class Raw(str):
    def __repr__(self):
        return "Raw(%s)" % str.__repr__(self)


def parse(s):
    v, i = _val(s, 0)
    return v


def _ws(s, i):
    while i < len(s) and s[i] in " \t\r\n":
        i += 1
    return i


def _val(s, i):
    i = _ws(s, i)
    if i >= len(s):
        return Raw(""), i
    c = s[i]
    if c == "[":
        out = []
        i += 1
        i = _ws(s, i)
        if i < len(s) and s[i] == "]":
            return out, i + 1
        while True:
            v, i = _val(s, i)
            out.append(v)
            i = _ws(s, i)
            if i < len(s) and s[i] == ",":
                i += 1
                continue
            if i < len(s) and s[i] == "]":
                return out, i + 1
            return out, i
    if c == '"':
        i += 1
        buf = []
        while i < len(s):
            if s[i] == '"':
                if i + 1 < len(s) and s[i + 1] == '"':
                    buf.append('"')
                    i += 2
                    continue
                return "".join(buf), i + 1
            buf.append(s[i])
            i += 1
        return "".join(buf), i
    if s.startswith("HM{", i):
        i += 3
        items = []
        i = _ws(s, i)
        if i < len(s) and s[i] == "}":
            return ("HM", items), i + 1
        while True:
            v, i = _val(s, i)
            items.append(v)
            i = _ws(s, i)
            if i < len(s) and s[i] == ",":
                i += 1
                continue
            if i < len(s) and s[i] == "}":
                return ("HM", items), i + 1
            return ("HM", items), i
    if c == "{":
        # code: balanced braces, strings inside respected
        depth = 0
        j = i
        while j < len(s):
            if s[j] == '"':
                j += 1
                while j < len(s) and not (s[j] == '"' and not (j + 1 < len(s) and s[j + 1] == '"')):
                    j += 2 if s[j] == '"' else 1
                j += 1
                continue
            if s[j] == "{":
                depth += 1
            elif s[j] == "}":
                depth -= 1
                if depth == 0:
                    j += 1
                    break
            j += 1
        return Raw(s[i:j]), j
    j = i
    while j < len(s) and s[j] not in ",]}":
        j += 1
    tok = s[i:j].strip()
    if tok == "true":
        return True, j
    if tok == "false":
        return False, j
    if tok == "nil":
        return None, j
    try:
        if any(ch in tok for ch in ".eEn"):
            f = float(tok)
            if f == int(f) and abs(f) < 1e15 and "inf" not in tok and "nan" not in tok:
                return int(f), j
            return f, j
        return int(tok), j
    except ValueError:
        return Raw(tok), j
