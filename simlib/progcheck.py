"""Engine shared by the program-shaped properties (C02, C03, C04, C05): build a plan from generated
programs, run the reference interpreter, compare per-script marker traces."""
import copy
import hashlib

from . import sqf, sqfgen
from .core import Violation, crash_site

CONSTRUCTS = {"call", "callarg", "callv", "if", "switch", "try", "except", "count", "selectc", "apply", "findIf",
              "forEach", "for", "while", "isNilc", "lazy"}


def shape(node, depth=0, out=None):
    """pre-order list of (depth, construct kind) of an AST (statement list or node)"""
    if out is None:
        out = []
    if isinstance(node, list):
        if node and isinstance(node[0], str):
            k = node[0]
            d = depth
            if k in CONSTRUCTS or k in ("exitWith", "breakOut", "throw", "spawn", "with", "fault"):
                out.append((depth, k))
                d = depth + 1
            for x in node[1:]:
                shape(x, d, out)
        else:
            for x in node:
                shape(x, depth, out)
    return out


def gen_sched(rng):
    mode = rng.random()
    sched = {}
    if mode < 0.5:
        sched["slice_default"] = rng.choice([1, 2, 3, 5, 8, 13])
    else:
        L = rng.choice([2, 4, 7, 13])
        sched["slices"] = [rng.randint(1, L) for _ in range(rng.randint(20, 150))]
        sched["slice_default"] = rng.choice([1, 3, 150])
    return sched


def build_case(rng, opts_kw, prop, scheduled_prob=0.5, co_runner_prob=0.7, conf=None, limits=None, observe=None):
    """Returns a JSON-able case: programs (ASTs), mode, schedule and the plan."""
    progs = []
    scheduled = rng.random() < scheduled_prob
    n = 1
    if scheduled and rng.random() < co_runner_prob:
        n = rng.randint(2, 3)
    feats = set()
    for i in range(n):
        kw = dict(opts_kw)
        kw["k0"] = i * 10000
        kw["gprefix"] = "g%dv" % i
        if scheduled and kw.get("sleep_if_sched"):
            kw["sleep"] = kw.pop("sleep_if_sched")
        kw.pop("sleep_if_sched", None)
        if i > 0:
            kw["faults"] = 0
            kw["natural_faults"] = 0
        g = sqfgen.Gen(rng, sqfgen.Opts(**kw))
        progs.append(g.program())
        feats |= g.features
    case = {"progs": progs, "scheduled": scheduled, "features": sorted(feats),
            "sched": gen_sched(rng) if scheduled else {},
            "clock": {"per_instr_ns": rng.choice([0, 1000, 100000]), "per_poll_ns": rng.choice([100, 10000]), "idle_jump": True},
            "conf": conf or {"print_work": True}, "limits": limits or {}, "observe": observe or {}, "prop": prop}
    case["plan"] = build_plan(case)
    return case


def main_block(case):
    if not case["scheduled"]:
        return case["progs"][0]
    return [["spawn", None, ["arr", []], p] for p in case["progs"]]


def build_plan(case):
    text = sqf.p_program(main_block(case))
    lim = {"max_instr": 100000, "max_events": 120000, "max_visits": 300000, "watchdog_s": 30}
    lim.update(case.get("limits") or {})
    obs = {"visits": False, "slices": bool(case["scheduled"])}
    obs.update(case.get("observe") or {})
    plan = {
        "prop": case.get("prop", ""),
        "steps": [{"do": "vm_new", "vm": "a", "conf": case.get("conf", {})},
                  {"do": "load", "vm": "a", "text": text, "name": "main.sqf"},
                  {"do": "action", "vm": "a", "name": "start"},
                  {"do": "state", "vm": "a"}],
        "sched": case.get("sched", {}), "clock": case.get("clock", {}),
        "limits": lim, "observe": obs,
    }
    if case.get("faults"):
        plan["faults"] = case["faults"]
    return plan


def split_marker(payload):
    """'[k,<v>]' -> (k, '<v>') ; '[k]' -> (k, None)"""
    inner = payload[1:-1]
    i = inner.find(",")
    if i < 0:
        try:
            return int(inner), None
        except ValueError:
            return None, payload
    try:
        return int(inner[:i]), inner[i + 1:]
    except ValueError:
        return None, payload


def observed_traces(h):
    """ctx -> [(k, rendered)] in order; plus logs"""
    tr = {}
    logs = []
    for e in h["events"]:
        if e[1] == "t":
            tr.setdefault(e[3], []).append(split_marker(e[4]) + (e[0],))
        elif e[1] == "log":
            logs.append(e)
    return tr, logs


def run_model(case, quirks=(), max_loop=10000):
    it = sqf.Interp(quirks=quirks, max_loop=max_loop)
    try:
        it.run_program(main_block(case), this=None, scheduled=False)
        return it, None
    except sqf.Unmodelled as u:
        return it, "unmodelled: %s" % u
    except RecursionError:
        return it, "unmodelled: recursion"
    except (TypeError, IndexError, KeyError, AttributeError) as ex:
        return it, "MODEL-TYPE-ERROR: %r" % (ex,)


def enclosing_constructs(node, k, stack=()):
    """kinds of the constructs (outermost..innermost) that enclose the trace statement with marker k"""
    if isinstance(node, list):
        if node and isinstance(node[0], str):
            if node[0] == "t" and len(node) > 1 and node[1] == k:
                return list(stack)
            st = stack
            if node[0] in CONSTRUCTS or node[0] in ("exitWith", "spawn", "with"):
                st = stack + (node[0],)
            for x in node[1:]:
                r = enclosing_constructs(x, k, st)
                if r is not None:
                    return r
        else:
            for x in node:
                r = enclosing_constructs(x, k, stack)
                if r is not None:
                    return r
    return None


def where(case, k):
    if k is None:
        return "?"
    for p in case["progs"]:
        r = enclosing_constructs(p, k)
        if r is not None:
            return "/".join(r[-2:]) if r else "top"
    return "?"


def compare_traces(case, h, it, prefix_ok=False, skip_sids=()):
    """Per-script comparison. Returns list of (sid, message, class) mismatches; class is a stable
    description: kind of divergence + the constructs enclosing the marker where it shows."""
    tr, logs = observed_traces(h)
    # model scripts by their first marker (several when one spawn site ran more than once: paired in creation order)
    by_first = {}
    for s in it.scripts:
        if s.trace:
            by_first.setdefault(s.trace[0][0], []).append(s)
    mism = []
    seen = set()
    for ctx, obs in sorted(tr.items()):
        if not obs:
            continue
        lst = by_first.get(obs[0][0])
        if not lst:
            mism.append((None, "context %d starts with marker %r that no (further) script of the model starts with" % (ctx, obs[0][0]), "unknown-script"))
            continue
        s = lst.pop(0)
        seen.add(s.sid)
        if s.sid in skip_sids:
            continue
        exp = s.trace
        n = min(len(exp), len(obs))
        for i in range(n):
            if exp[i][0] != obs[i][0] or (exp[i][1] != obs[i][1]):
                cls = ("value@" + where(case, exp[i][0])) if exp[i][0] == obs[i][0] else ("order@" + where(case, exp[i][0]) + "|" + where(case, obs[i][0]))
                mism.append((s.sid, "script %d marker #%d: expected [%s,%s] got [%s,%s]; preceding markers %r" % (
                    s.sid, i, exp[i][0], exp[i][1], obs[i][0], obs[i][1], [o[0] for o in obs[max(0, i - 4):i]]), cls))
                break
        else:
            if len(obs) > len(exp):
                mism.append((s.sid, "script %d executed extra marker [%s,%s] after its %d expected ones" % (s.sid, obs[n][0], obs[n][1], len(exp)), "extra@" + where(case, obs[n][0])))
            elif len(obs) < len(exp) and not prefix_ok:
                mism.append((s.sid, "script %d stopped after %d of %d markers; next expected [%s,%s]" % (s.sid, len(obs), len(exp), exp[n][0], exp[n][1]), "missing@" + where(case, exp[n][0])))
    if not prefix_ok:
        for s in it.scripts:
            if s.trace and s.sid not in seen and s.sid not in skip_sids:
                mism.append((s.sid, "script %d never ran (expected first marker %s)" % (s.sid, s.trace[0][0]), "never-ran"))
    return mism


def crash_violation(h, rule):
    c = h["crash"]
    return Violation(rule, "crash:" + crash_site(c), c.get("stderr", "")[-2500:])


def construct_of_mismatch(case, it, msg):
    return ""


def signature(case, hs):
    h = hs[0]
    if "crash" in h:
        return None
    sh = []
    for p in case["progs"]:
        sh.append(shape(p))
    depth = max([d for s in sh for d, _ in s] + [0])
    if depth < 1:
        return None
    m = hashlib.sha256()
    m.update(repr(sh).encode())
    m.update(repr(case["scheduled"]).encode())
    cut_inside = False
    if case["scheduled"]:
        for e in h["events"]:
            if e[1] == "se":
                m.update(("%d:%d:%d;" % (e[3], e[4], e[6])).encode())
                if e[6] > 1:
                    cut_inside = True
        if not cut_inside:
            return None
    return m.hexdigest()[:16]


def stats(case, hs):
    h = hs[0]
    if "crash" in h:
        return {"crashes": 1}
    c = h.get("counters", {})
    out = {"instr": c.get("instr", 0), "sim_time_s": (c.get("clock_end_ns", 0) - 1600000000 * 10**9) / 1e9,
           "scheduled_runs": 1 if case["scheduled"] else 0, "features": {f: 1 for f in case.get("features", [])},
           "faults_fired": dict(c.get("faults_fired", {}))}
    return out


# ------------------------------------------------------------------------------------------------
# generic AST shrinking
# ------------------------------------------------------------------------------------------------
def _blocks(node, path=()):
    """yields (path, block) for every statement list inside node"""
    if isinstance(node, list):
        if node and isinstance(node[0], list) and (not node[0] or isinstance(node[0][0], str)) and all(isinstance(x, list) for x in node):
            # could be a block (list of statements) or a list of exprs; treat uniformly
            yield path, node
        for i, x in enumerate(node):
            if isinstance(x, list):
                for r in _blocks(x, path + (i,)):
                    yield r


def _get(node, path):
    for i in path:
        node = node[i]
    return node


STMT_KINDS = {"t", "lset", "lpriv", "priv", "gset", "setvar", "params", "e", "exitWith", "scopeName", "breakOut", "throw", "with", "spawn", "sleep", "case", "default"}


def shrink_candidates_progs(case, rebuild):
    """drop statements (largest first), drop co-runners, simplify the schedule"""
    # drop whole co-runner programs
    if len(case["progs"]) > 1:
        for i in range(len(case["progs"]) - 1, 0, -1):
            c = copy.deepcopy(case)
            del c["progs"][i]
            yield rebuild(c)
    if case["scheduled"]:
        c = copy.deepcopy(case)
        c["scheduled"] = False
        c["progs"] = c["progs"][:1]
        c["sched"] = {}
        yield rebuild(c)
    if case.get("sched", {}).get("slices"):
        c = copy.deepcopy(case)
        del c["sched"]["slices"]
        yield rebuild(c)
    # statement deletion
    for pi, prog in enumerate(case["progs"]):
        cands = []
        for path, blk in _blocks(prog):
            for i, st in enumerate(blk):
                if isinstance(st, list) and st and isinstance(st[0], str) and st[0] in STMT_KINDS:
                    if i == len(blk) - 1 and st[0] == "e":
                        continue   # the block's value: removing it would change types / leave an empty condition
                    if st[0] in ("case", "default", "scopeName"):
                        continue
                    cands.append((len(repr(st)), path, i))
        cands.sort(reverse=True)
        for _, path, i in cands:
            c = copy.deepcopy(case)
            blk = _get(c["progs"][pi], path)
            del blk[i]
            yield rebuild(c)
        # replace a construct statement by its inner block's statements (hoisting)
        for path, blk in _blocks(prog):
            for i, st in enumerate(blk):
                if isinstance(st, list) and st and st[0] == "e" and isinstance(st[1], list) and st[1] and st[1][0] in ("call", "if"):
                    inner = st[1][1] if st[1][0] == "call" else st[1][2]
                    if isinstance(inner, list):
                        c = copy.deepcopy(case)
                        b2 = _get(c["progs"][pi], path)
                        b2[i:i + 1] = copy.deepcopy(inner)
                        yield rebuild(c)
