// Shared state of the simvm executor. One Sim per plan; a plan is executed in a forked child,
// so every run starts from pristine process-wide state.
#pragma once
#include <cstdint>
#include <cstdio>
#include <string>
#include <vector>
#include <map>
#include <set>
#include <memory>
#include <functional>
#include <nlohmann/json.hpp>

#include "runtime/runtime.h"
#include "runtime/logging.h"

using json = nlohmann::json;

namespace sim
{
    struct HarnessLogger;
    struct VM
    {
        std::string id;
        int ord = 0;
        std::unique_ptr<HarnessLogger> logger;
        std::unique_ptr<sqf::runtime::runtime> rt;
        sqf::runtime::runtime* rt_raw = nullptr; // for runtimes not owned by us (API / CLI)
        int exec_depth = 0;                        // S1: executors inside execute_do
        uint64_t slice_instr = 0;
        int last_slice_ctx = -1;
        int last_result = 0;
        int64_t run_start_ns = -1;                 // virtual time at which the current/last action::start began
    };

    struct Fault
    {
        std::string kind;     // "error"
        uint64_t after_instr; // global dynamic instruction index (1-based) after which it fires
        std::string vm;       // optional filter
        bool fired = false;
    };
    struct ClockJump
    {
        uint64_t after_instr;
        int64_t by_ns;
        bool fired = false;
    };

    struct Sim
    {
        json plan;
        json events = json::array();
        json monitor = json::array();
        json counters = json::object();
        uint64_t seq = 0;

        // virtual clock
        int64_t clock_ns = 1600000000LL * 1000000000LL;
        int64_t per_instr_ns = 1000;
        int64_t per_poll_ns = 100;
        bool idle_jump = true;
        std::vector<ClockJump> jumps;
        uint64_t polls = 0;
        uint64_t clock_jumps = 0;

        // schedule
        std::vector<int64_t> slices;
        size_t slice_pos = 0;
        int64_t slice_default = 0; // 0: shipped value

        // limits
        uint64_t instr = 0;
        uint64_t max_instr = 200000;
        uint64_t max_events = 200000;
        uint64_t max_visits = 2000000;
        uint64_t visits = 0;
        uint64_t idle_visits = 0; // consecutive visits without instruction
        uint64_t instr_at_last_visit = 0;

        // observation switches
        bool obs_instr = false;
        bool obs_stack = false;
        bool obs_visits = true;
        bool obs_slices = true;
        bool obs_sites = false;
        std::set<std::string> obs_ops; // operator names whose execution is recorded with the resulting top of stack

        std::vector<Fault> faults;
        std::map<std::string, uint64_t> faults_fired;
        std::map<std::string, uint64_t> probes;

        std::vector<std::unique_ptr<VM>> vms;
        std::map<const sqf::runtime::runtime*, VM*> by_rt;

        // context registry (weak_ptr keeps the allocation alive so addresses are not reused)
        std::vector<std::pair<std::weak_ptr<sqf::runtime::context>, const sqf::runtime::context*>> ctxs;

        // rand
        uint64_t rand_state = 0x9E3779B97F4A7C15ULL;

        // threads (baton)
        bool par_active = false;
        int current_thread = 0;

        VM* vm_of(sqf::runtime::runtime& rt);
        VM* vm_by_id(const std::string& id);
        int ctx_id(sqf::runtime::runtime& rt, const sqf::runtime::context* raw);
        void register_contexts(sqf::runtime::runtime& rt);
        void ev(json&& e);
        void mon(const std::string& rule, const std::string& culprit, const std::string& detail);
        void probe(const std::string& name) { probes[name]++; }
    };

    extern Sim* g;

    struct HarnessLogger : public Logger
    {
        std::string vm_id;
        HarnessLogger(std::string id) : Logger(), vm_id(std::move(id)) {}
        void log(const LogMessageBase& message) override;
    };

    // rendering of values with bounded depth (never recurses without bound)
    std::string render(const sqf::runtime::value& v, int depth = 0);

    // steps
    void build_template();
    void run_plan();                 // executes g->plan, fills g->events
    [[noreturn]] void finish_and_exit(const char* truncated);

    // hooks / operators
    void install_hooks();
    void register_harness_ops(sqf::runtime::runtime& rt);

    // threads
    void thread_yield(int site);

    // stack monitor (C05)
    void stackmon_before(sqf::runtime::runtime& rt, sqf::runtime::instruction& in);
    void stackmon_after(sqf::runtime::runtime& rt, sqf::runtime::instruction& in);
    void stackmon_frame_done(sqf::runtime::runtime& rt);
    void stackmon_frame_popped(sqf::runtime::runtime& rt, bool had_value);
    void stackmon_slice_begin(sqf::runtime::runtime& rt);
    void stackmon_slice_end(sqf::runtime::runtime& rt);

    // step families implemented in other files
    bool step_api(const json& st);
    bool step_cli(const json& st);
    bool step_parse(const json& st);
    bool step_fs(const json& st);
    bool step_pbo(const json& st);

    std::string b64dec(const std::string& in);
    std::string b64enc(const std::string& in);
}
