// PBO steps (C17): open an archive image through rvutils::pbo::pbofile, map it into the VM's file layer and
// request entries, with allocation accounting through the sanitizer's malloc hooks.
#include "sim.h"
#include "rvutils/pbofile.hpp"
#include "fileio/default.h"

#include <filesystem>
#include <fstream>

extern "C" int __sanitizer_install_malloc_and_free_hooks(void (*malloc_hook)(const volatile void*, size_t), void (*free_hook)(const volatile void*));

namespace sim
{
    namespace
    {
        bool acc_on = false;
        uint64_t acc_total = 0;
        uint64_t acc_max = 0;
        bool hooks_installed = false;
        void on_malloc(const volatile void*, size_t n)
        {
            if (!acc_on) return;
            acc_total += n;
            if (n > acc_max) acc_max = n;
        }
        void on_free(const volatile void*) {}
        void acc_begin()
        {
            if (!hooks_installed) { __sanitizer_install_malloc_and_free_hooks(on_malloc, on_free); hooks_installed = true; }
            acc_total = 0; acc_max = 0; acc_on = true;
        }
        void acc_end() { acc_on = false; }
    }

    bool step_pbo(const json& st)
    {
        std::string d = st.at("do").get<std::string>();
        if (d == "pbo_open")
        {
            std::string path = st.at("path").get<std::string>();
            fprintf(stderr, "@pbo open\n");
            std::string exc;
            json attrs = json::array(), files = json::array(), entries = json::array();
            bool good = false;
            acc_begin();
            try
            {
                // the reading entry point: open() (the path constructor is the open-or-create used by writers)
                rvutils::pbo::pbofile pbo;
                pbo.open(std::filesystem::path(path));
                good = pbo.good();
                if (good)
                {
                    for (auto key : { "prefix", "product", "version", "k1", "k2", "k3" })
                    {
                        auto v = pbo.attribute(key);
                        if (v.has_value()) attrs.push_back({ key, b64enc(*v) });
                    }
                    for (auto& f : pbo.files())
                    {
                        files.push_back({ b64enc(f.name), (uint64_t)f.size });
                    }
                    size_t idx = 0;
                    for (auto& f : pbo.files())
                    {
                        if (idx++ >= 16) break;
                        rvutils::pbo::pbofile::reader rd;
                        if (pbo.read(f.name, rd))
                        {
                            // ask for more than the entry holds: the reader must stop at the end of the entry
                            size_t want = std::min<size_t>(rd.descriptor().size, 1 << 20) + 64;
                            std::string buf;
                            buf.resize(want);
                            size_t n = rd.read(buf.data(), (std::streamsize)want);
                            if (n > want) n = want;
                            buf.resize(n);
                            entries.push_back({ b64enc(f.name), (uint64_t)rd.descriptor().size, (uint64_t)n, b64enc(buf) });
                        }
                        else
                        {
                            entries.push_back({ b64enc(f.name), (uint64_t)f.size, -1, "" });
                        }
                    }
                }
            }
            catch (const std::exception& e) { exc = e.what(); }
            acc_end();
            g->ev({ "pbo", path, good ? 1 : 0, attrs, files, entries, exc, acc_max, acc_total });
            return true;
        }
        if (d == "pbo_map")
        {
            auto vm = g->vm_by_id(st.at("vm").get<std::string>());
            std::string path = st.at("path").get<std::string>();
            fprintf(stderr, "@pbo map\n");
            std::string exc;
            acc_begin();
            try
            {
                auto& fio = static_cast<sqf::fileio::impl_default&>(vm->rt->fileio());
                fio.add_pbo_mapping(std::filesystem::path(path));
            }
            catch (const std::exception& e) { exc = e.what(); }
            acc_end();
            g->ev({ "pbo_map", path, exc, acc_max, acc_total });
            return true;
        }
        if (d == "vfs_read")
        {
            auto vm = g->vm_by_id(st.at("vm").get<std::string>());
            std::string req = st.at("path").get<std::string>();
            fprintf(stderr, "@pbo vfs_read\n");
            std::string exc, phys, content;
            int found = 0;
            acc_begin();
            try
            {
                auto pi = vm->rt->fileio().get_info(req, {});
                if (pi.has_value())
                {
                    found = 1;
                    phys = pi->physical;
                    // disk fault between resolution and read
                    std::string between = st.value("between", std::string());
                    std::string original;
                    bool faulted = false;
                    if (!between.empty() && phys.size() > 4 && phys.substr(phys.size() - 4) != ".pbo")
                    {
                        std::error_code ec;
                        { std::ifstream in(phys, std::ios::binary); original.assign(std::istreambuf_iterator<char>(in), std::istreambuf_iterator<char>()); }
                        faulted = true;
                        if (between == "delete") { std::filesystem::remove(phys, ec); }
                        else if (between == "mkdir") { std::filesystem::remove(phys, ec); std::filesystem::create_directories(phys, ec); }
                        else if (between.rfind("truncate", 0) == 0)
                        {
                            size_t n = (size_t)(between.back() - '0');
                            std::string keep;
                            { std::ifstream in(phys, std::ios::binary); keep.resize(n); in.read(keep.data(), (std::streamsize)n); keep.resize((size_t)in.gcount()); }
                            std::ofstream outf(phys, std::ios::binary | std::ios::trunc);
                            outf.write(keep.data(), (std::streamsize)keep.size());
                        }
                        g->faults_fired["disk_" + between]++;
                    }
                    try { content = vm->rt->fileio().read_file(*pi); }
                    catch (const std::exception& e) { exc = e.what(); }
                    if (faulted)
                    { // the fault is over: put the file back so that later requests of this run see the original disk
                        std::error_code ec;
                        std::filesystem::remove_all(phys, ec);
                        std::ofstream outf(phys, std::ios::binary | std::ios::trunc);
                        outf.write(original.data(), (std::streamsize)original.size());
                    }
                }
            }
            catch (const std::exception& e) { exc = e.what(); }
            acc_end();
            g->ev({ "vfs_read", req, found, phys, (uint64_t)content.size(), b64enc(content.substr(0, 1 << 20)), exc, acc_max, acc_total });
            return true;
        }
        return false;
    }
}
