// PBO steps (C17). Filled in later.
#include "sim.h"
namespace sim
{
    bool step_pbo(const json&) { return false; }
}
