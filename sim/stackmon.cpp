// Operand-stack invariants (C05), checked at every instruction boundary through the H1 hooks.
// Nothing here modifies the VM; it only reads frames and values of the active context.
//
//  I1  frame bases are non-decreasing and never above the stack height
//  I2  directly after an end_statement in frame F the height equals F's base
//  I3  a scope that is left contributes exactly one value to its caller (never zero, never several)
//  I4  the operands below a frame's base are the same objects, in the same order, as when the frame was
//      pushed - checked whenever frames have been removed by any path (completion, exitWith, breakOut,
//      throw, error recovery) and at every instruction boundary for the live top frame
//  I5  a context's stack is identical between the end of one of its slices and the start of its next
//  I6  every restart of a frame's code (loop iteration) begins at the same height as the first
#include "sim.h"
#include "opcodes/end_statement.h"

#include <unordered_map>

using namespace sqf::runtime;

namespace sim
{
    namespace
    {
        struct ShadowFrame
        {
            size_t base = 0;
            std::vector<const void*> below; // identity of values[0..base) when the frame was first seen
            struct Heights { size_t runs = 0, first = 0, second = 0; };
            std::unordered_map<const void*, Heights> heights; // per code (first instruction) of this scope
            size_t last_position = ~(size_t)0;
        };
        struct ShadowCtx
        {
            std::vector<ShadowFrame> frames;
            std::string last_instr = "<start>";
            bool has_slice_snapshot = false;
            std::vector<const void*> slice_snapshot;
            size_t slice_frames = 0;
            bool pending_done = false;       // on_frame_done seen, on_frame_popped not yet
            size_t done_base = 0;
        };
        std::unordered_map<const context*, ShadowCtx> shadows;

        const void* ident(const value& v) { return v.data().get(); }

        std::vector<const void*> take(context& c, size_t n)
        {
            std::vector<const void*> out;
            out.reserve(n);
            size_t i = 0;
            for (auto it = c.values_begin(); it != c.values_end() && i < n; ++it, ++i) out.push_back(ident(*it));
            return out;
        }
        std::vector<size_t> bases(context& c)
        {
            std::vector<size_t> b;
            for (auto it = c.frames_rend(); it != c.frames_rbegin();) { --it; b.push_back(it->value_stack_pos()); }
            return b; // outermost first
        }
        void report(const std::string& rule, ShadowCtx& sh, const std::string& detail)
        {
            g->mon(rule, sh.last_instr, detail);
        }

        // brings the shadow in line with the live frames; checks I1, I3, I4 on the way
        void sync(context& c, ShadowCtx& sh, const char* when)
        {
            auto b = bases(c);
            size_t height = c.values_size();
            // I1
            size_t prev = 0;
            for (size_t i = 0; i < b.size(); i++)
            {
                if (b[i] < prev) { report("I1", sh, std::string("frame bases decrease at depth ") + std::to_string(i) + " " + when); break; }
                prev = b[i];
            }
            if (!b.empty() && b.back() > height)
            {
                report("I1", sh, "top frame base " + std::to_string(b.back()) + " above stack height " + std::to_string(height) + " " + when);
            }
            // find the first depth where shadow and live frames differ
            size_t common = 0;
            while (common < sh.frames.size() && common < b.size() && sh.frames[common].base == b[common]) common++;
            if (common < sh.frames.size())
            {
                // frames [common..) of the shadow are gone (or replaced): the outermost removed one decides
                auto& gone = sh.frames[common];
                size_t upto = std::min(gone.base, height);
                // A handler (catch / except__) that took over restarts with fresh code and resets its OWN region;
                // only what lies below its base belongs to its callers then.
                bool takeover = !c.empty() && c.current_frame().position() == sqf::runtime::frame::position_invalid && common == b.size() && common > 0;
                if (takeover) upto = std::min(upto, b.back());
                auto now = take(c, upto);
                for (size_t i = 0; i < upto; i++)
                {
                    if (now[i] != gone.below[i])
                    {
                        report("I4", sh, "operand #" + std::to_string(i) + " below a left scope (base " + std::to_string(gone.base) + ") was replaced " + when);
                        break;
                    }
                }
                bool replaced = common < b.size(); // a new frame sits at this depth already (exitWith, loop exchange)
                bool by_breakout = sh.last_instr.find("breakout") != std::string::npos;
                if (takeover) { g->probe("handler_takeovers"); }
                else if (!replaced && common > 0 && height > gone.base + 1)
                {
                    report("I3", sh, "a left scope contributed " + std::to_string(height - gone.base) + " values to its caller (base " + std::to_string(gone.base) + ", height " + std::to_string(height) + ") " + when);
                }
                else if (!replaced && common > 0 && by_breakout && height == gone.base)
                {
                    report("I3", sh, std::string("a scope left by breakOut contributed no value to its caller ") + when);
                }
                sh.frames.resize(common);
            }
            // new frames
            for (size_t i = sh.frames.size(); i < b.size(); i++)
            {
                ShadowFrame f;
                f.base = b[i];
                f.below = take(c, std::min(b[i], height));
                sh.frames.push_back(std::move(f));
            }
            // I4 for the live top frame: nothing below its base may change while it runs
            if (!sh.frames.empty())
            {
                auto& top = sh.frames.back();
                size_t upto = std::min(top.base, height);
                if (top.below.size() >= upto)
                {
                    auto now = take(c, upto);
                    for (size_t i = 0; i < upto; i++)
                    {
                        if (now[i] != top.below[i])
                        {
                            report("I4", sh, "operand #" + std::to_string(i) + " below the running scope (base " + std::to_string(top.base) + ") was replaced " + when);
                            top.below = now; // report once
                            break;
                        }
                    }
                }
            }
        }
    }

    void stackmon_before(runtime& rt, instruction& in)
    {
        auto act = rt.context_active_as_shared();
        if (!act) return;
        auto& sh = shadows[act.get()];
        sync(*act, sh, "before an instruction");
        // I6: restart of the top frame's code
        if (!act->empty() && !sh.frames.empty())
        {
            auto& fr = act->current_frame();
            auto& top = sh.frames.back();
            if (fr.position() == 0)
            {
                // Restarts of the same code (same first instruction) are loop iterations. The first run may start one
                // higher (placeholder pushed by the operator that created the scope); from the second run on the height
                // must stay the same, and it may never grow. A scope whose code was exchanged (switch target, catch
                // block, while condition/body) is tracked per code.
                size_t h = act->values_size();
                auto& hs = top.heights[&in];
                if (hs.runs == 0) { hs.first = h; }
                else if (hs.runs == 1)
                {
                    hs.second = h;
                    if (h > hs.first) report("I6", sh, "second iteration starts at height " + std::to_string(h) + ", the first started at " + std::to_string(hs.first));
                }
                else if (hs.second != h)
                {
                    report("I6", sh, "iteration " + std::to_string(hs.runs + 1) + " starts at height " + std::to_string(h) + ", earlier iterations started at " + std::to_string(hs.second));
                    hs.second = h;
                }
                hs.runs++;
            }
        }
        sh.last_instr = in.to_string();
    }

    void stackmon_after(runtime& rt, instruction& in)
    {
        auto act = rt.context_active_as_shared();
        if (!act) return;
        auto& sh = shadows[act.get()];
        if (!act->empty()) sync(*act, sh, "right after the instruction");
        if (dynamic_cast<sqf::opcodes::end_statement*>(&in) != nullptr && !act->empty())
        {
            if (act->values_size() != act->current_frame().value_stack_pos())
            {
                report("I2", sh, "after a statement separator " + std::to_string(act->values_size() - act->current_frame().value_stack_pos()) + " operands of the finished statement remain");
            }
        }
    }

    void stackmon_frame_done(runtime& rt)
    {
        auto act = rt.context_active_as_shared();
        if (!act || act->empty()) return;
        auto& sh = shadows[act.get()];
        sync(*act, sh, "when a scope finished");
        sh.pending_done = true;
        sh.done_base = act->current_frame().value_stack_pos();
        g->probe("scopes_finished");
    }

    void stackmon_frame_popped(runtime& rt, bool had_value)
    {
        auto act = rt.context_active_as_shared();
        if (!act) return;
        auto& sh = shadows[act.get()];
        if (!sh.pending_done) return;
        sh.pending_done = false;
        if (act->empty()) return;          // the script's outermost scope has no caller
        size_t height = act->values_size();
        if (height != sh.done_base + 1)
        {
            report("I3", sh, "a finished scope contributed " + std::to_string((long)height - (long)sh.done_base) + " values to its caller instead of exactly one");
        }
        if (!sh.frames.empty()) sh.frames.pop_back();   // keep the shadow in step: the finished frame is gone
        if (!had_value) g->probe("scopes_finished_without_own_value");
    }

    void stackmon_slice_begin(runtime& rt)
    {
        auto act = rt.context_active_as_shared();
        if (!act) return;
        auto& sh = shadows[act.get()];
        if (sh.has_slice_snapshot)
        {
            auto now = take(*act, act->values_size());
            if (now != sh.slice_snapshot || act->frames_size() != sh.slice_frames)
            {
                report("I5", sh, "the stack of a context changed while it was not running (" + std::to_string(sh.slice_snapshot.size()) + " -> " + std::to_string(now.size()) + " values)");
            }
        }
    }

    void stackmon_slice_end(runtime& rt)
    {
        auto act = rt.context_active_as_shared();
        if (!act) return;
        auto& sh = shadows[act.get()];
        // a scope that finished as the very last thing of the slice: check its contribution now
        sh.has_slice_snapshot = true;
        sh.slice_snapshot = take(*act, act->values_size());
        sh.slice_frames = act->frames_size();
        if (act->empty()) { shadows.erase(act.get()); }
    }

}
