// Operand-stack invariants (C05), checked at every instruction boundary. Filled in later.
#include "sim.h"
namespace sim
{
    void stackmon_before(sqf::runtime::runtime&, sqf::runtime::instruction&) {}
    void stackmon_after(sqf::runtime::runtime&, sqf::runtime::instruction&) {}
    void stackmon_frame_done(sqf::runtime::runtime&) {}
    void stackmon_slice_begin(sqf::runtime::runtime&) {}
    void stackmon_slice_end(sqf::runtime::runtime&) {}
}
