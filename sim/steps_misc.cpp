// Step families: embedding API (real exported functions), in-process CLI, front-end entry points,
// scratch file system operations.
#include "sim.h"
#include <cstdint>
#include "export/sqfvm.h"
#include "cli/cli.hpp"
#include "runtime/d_string.h"

#include <iostream>
#include <sstream>
#include <fstream>
#include <filesystem>
#include <unistd.h>
#include <algorithm>
#include <set>

using namespace sqf::runtime;

namespace sim
{
    // ---------------------------------------------------------------------------------------
    // API
    // ---------------------------------------------------------------------------------------
    namespace
    {
        std::map<std::string, void*> api_inst;
        struct api_instance_layout // mirrors dllexports::instance (observation only)
        {
            char seq[4];
            void* logger;
            sqf::runtime::runtime* runtime;
        };
        void api_cb(void* user_data, void* call_data, int32_t severity, const char* message, uint32_t length)
        {
            std::string msg = message ? std::string(message, length) : std::string("<null>");
            g->ev({ "cb", (uint64_t)(uintptr_t)user_data, (uint64_t)(uintptr_t)call_data, severity, msg });
        }
        runtime* api_rt(void* inst)
        {
            if (!inst) return nullptr;
            auto l = reinterpret_cast<api_instance_layout*>(inst);
            if (l->seq[0] == 'S' && l->seq[1] == 'Q' && l->seq[2] == 'F' && l->seq[3] == 'E') return l->runtime;
            return nullptr;
        }
        json api_obs(void* inst)
        {
            auto rt = api_rt(inst);
            if (!rt) return nullptr;
            return json{ {"state", (int)rt->runtime_state()}, {"contexts", (int)(rt->context_end() - rt->context_begin())},
                {"runtime_error", rt->__runtime_error()}, {"log_messages", (int)rt->log_messages.size()} };
        }
    }

    bool step_api(const json& st)
    {
        std::string d = st.at("do").get<std::string>();
        if (d.rfind("api_", 0) != 0) return false;
        std::string name = st.value("inst", std::string("i0"));
        if (d == "api_create")
        {
            std::string kind = st.value("kind", std::string("full"));
            float mr = st.value("max_runtime_s", 0.0f);
            void* ud = (void*)(uintptr_t)st.value("user", (uint64_t)0);
            void* p = nullptr;
            if (kind == "full") p = sqfvm_create_instance(ud, api_cb, mr);
            else if (kind == "basic") p = sqfvm_create_instance_basic(ud, api_cb, mr);
            else p = sqfvm_create_instance_empty(ud, api_cb, mr);
            api_inst[name] = p;
            if (auto rt = api_rt(p))
            {
                auto vm = g->vm_of(*rt);
                vm->id = "api:" + name;
                if (st.value("harness_ops", true) && kind != "empty") register_harness_ops(*rt);
            }
            g->ev({ "api", "create", name, p ? 1 : 0, g->clock_ns });
            return true;
        }
        void* p = nullptr;
        std::string how = st.value("handle", std::string("valid"));
        char bogus[64];
        memset(bogus, 0, sizeof(bogus));
        if (how == "valid") { auto it = api_inst.find(name); p = it == api_inst.end() ? nullptr : it->second; }
        else if (how == "null") p = nullptr;
        else if (how == "bogus") p = bogus;
        if (d == "api_destroy")
        {
            if (p)
            {
                if (auto rt = api_rt(p))
                {
                    auto it = g->by_rt.find(rt);
                    if (it != g->by_rt.end()) { it->second->rt_raw = nullptr; g->by_rt.erase(it); }
                }
                sqfvm_destroy_instance(p);
            }
            api_inst.erase(name);
            g->ev({ "api", "destroy", name, 0, g->clock_ns });
            return true;
        }
        if (d == "api_status")
        {
            int r = sqfvm_status(p);
            g->ev({ "api", "status", name, r, g->clock_ns, how });
            return true;
        }
        if (d == "api_load_config")
        {
            std::string text = st.contains("text_b64") ? b64dec(st["text_b64"].get<std::string>()) : st.value("text", std::string());
            fprintf(stderr, "@api load_config\n");
            int r; std::string exc;
            try { r = sqfvm_load_config(p, text.data(), (uint32_t)text.size()); }
            catch (const std::exception& e) { r = -99; exc = e.what(); }
            g->ev({ "api", "load_config", name, r, g->clock_ns, how, exc, how == "valid" ? api_obs(p) : json(nullptr) });
            return true;
        }
        if (d == "api_call")
        {
            std::string text = st.contains("text_b64") ? b64dec(st["text_b64"].get<std::string>()) : st.value("text", std::string());
            std::string ty = st.value("type", std::string("s"));
            void* cd = (void*)(uintptr_t)st.value("cookie", (uint64_t)0);
            int64_t t0 = g->clock_ns;
            uint64_t i0 = g->instr;
            fprintf(stderr, "@api call type=%s\n", (ty.size() == 1 && ty[0] >= 'a' && ty[0] <= 'z') || ty == "1" ? ty.c_str() : "other");
            g->ev({ "api_begin", "call", name, (uint64_t)(uintptr_t)cd, t0 });
            int r; std::string exc;
            try { r = sqfvm_call(p, cd, ty.empty() ? 's' : ty[0], text.data(), (uint32_t)text.size()); }
            catch (const std::exception& e) { r = -99; exc = e.what(); }
            g->ev({ "api", "call", name, r, g->clock_ns, how, exc, how == "valid" ? api_obs(p) : json(nullptr), t0, g->instr - i0 });
            return true;
        }
        return false;
    }

    // ---------------------------------------------------------------------------------------
    // CLI (cli::run in-process, wrapped like main_actual does)
    // ---------------------------------------------------------------------------------------
    bool step_cli(const json& st)
    {
        if (st.at("do").get<std::string>() != "cli") return false;
        std::vector<std::string> args;
        args.push_back("sqfvm");
        for (auto& a : st.at("argv")) args.push_back(a.get<std::string>());
        std::vector<const char*> argv;
        for (auto& a : args) argv.push_back(a.c_str());
        if (st.contains("cwd")) { if (chdir(st["cwd"].get<std::string>().c_str()) != 0) { g->ev({ "cli_err", "chdir" }); } }
        std::ostringstream out, err;
        auto old_out = std::cout.rdbuf(out.rdbuf());
        auto old_err = std::cerr.rdbuf(err.rdbuf());
        int rc; std::string exc;
        fprintf(stderr, "@cli\n");
        std::set<const sqf::runtime::runtime*> known;
        for (auto& kv : g->by_rt) known.insert(kv.first);
        try
        {
            cli c;
            rc = c.run(argv.size(), argv.data());
        }
        catch (std::exception& ex)
        {
            // this is what main_actual does
            exc = ex.what();
            rc = -1;
        }
        // the runtime the CLI owned is gone with it: forget it (the final snapshot must not look at freed memory)
        for (auto it = g->by_rt.begin(); it != g->by_rt.end();)
        {
            if (!known.count(it->first)) { it->second->rt_raw = nullptr; it = g->by_rt.erase(it); }
            else ++it;
        }
        std::cout.rdbuf(old_out);
        std::cerr.rdbuf(old_err);
        g->ev({ "cli", rc, out.str(), err.str(), exc, g->clock_ns });
        return true;
    }

    // ---------------------------------------------------------------------------------------
    // front ends
    // ---------------------------------------------------------------------------------------
    bool step_parse(const json& st)
    {
        std::string d = st.at("do").get<std::string>();
        if (d != "parse") return false;
        auto vm = g->vm_by_id(st.at("vm").get<std::string>());
        auto& rt = *vm->rt;
        std::string entry = st.at("entry").get<std::string>();
        std::string text = st.contains("text_b64") ? b64dec(st["text_b64"].get<std::string>()) : st.value("text", std::string());
        std::string name = st.value("name", std::string("in.sqf"));
        fprintf(stderr, "@parse %s\n", entry.c_str());
        std::string exc; json res = nullptr; bool has = false;
        try
        {
            if (entry == "preprocess")
            {
                auto r = rt.parser_preprocessor().preprocess(rt, text, { name, {} });
                has = r.has_value();
                if (has) res = b64enc(*r);
            }
            else if (entry == "preprocess_file")
            {
                auto pi = rt.fileio().get_info(name, {});
                if (pi.has_value())
                {
                    auto r = rt.parser_preprocessor().preprocess(rt, *pi);
                    has = r.has_value();
                    if (has) res = b64enc(*r);
                }
                else res = "notfound";
            }
            else if (entry == "sqf")
            {
                auto r = rt.parser_sqf().parse(rt, text, { name, {} });
                has = r.has_value();
                if (has)
                {
                    std::string s;
                    for (auto& in : *r) { s += in->to_string(); s += ";"; }
                    res = s;
                }
            }
            else if (entry == "sqf_check")
            {
                has = rt.parser_sqf().check_syntax(rt, text, { name, {} });
            }
            else if (entry == "config")
            {
                has = rt.parser_config().parse(rt.confighost(), text, { name, {} });
            }
            else if (entry == "config_check")
            {
                has = rt.parser_config().check_syntax(text, { name, {} });
            }
        }
        catch (const std::exception& e) { exc = std::string("EXC:") + e.what(); }
        g->ev({ "parse", vm->id, entry, has ? 1 : 0, res, exc });
        return true;
    }

    // ---------------------------------------------------------------------------------------
    // scratch file system
    // ---------------------------------------------------------------------------------------
    bool step_fs(const json& st)
    {
        std::string d = st.at("do").get<std::string>();
        if (d != "fs") return false;
        std::string op = st.at("op").get<std::string>();
        std::string path = st.at("path").get<std::string>();
        std::error_code ec;
        if (op == "write")
        {
            std::filesystem::create_directories(std::filesystem::path(path).parent_path(), ec);
            std::ofstream f(path, std::ios::binary | std::ios::trunc);
            auto data = st.contains("b64") ? b64dec(st["b64"].get<std::string>()) : st.value("text", std::string());
            f.write(data.data(), (std::streamsize)data.size());
        }
        else if (op == "mkdir") std::filesystem::create_directories(path, ec);
        else if (op == "rm") std::filesystem::remove_all(path, ec);
        else if (op == "chdir") { if (chdir(path.c_str()) != 0) ec = std::make_error_code(std::errc::no_such_file_or_directory); }
        else if (op == "snapshot")
        {
            // listing of a directory tree with size and a content hash per file (FNV-1a 64)
            json items = json::array();
            std::vector<std::string> names;
            if (std::filesystem::exists(path, ec))
            {
                for (auto it = std::filesystem::recursive_directory_iterator(path, ec); !ec && it != std::filesystem::recursive_directory_iterator(); it.increment(ec))
                {
                    names.push_back(it->path().string());
                }
            }
            std::sort(names.begin(), names.end());
            for (auto& n : names)
            {
                std::error_code e2;
                if (std::filesystem::is_directory(n, e2)) { items.push_back({ n.substr(path.size()), "dir", 0 }); continue; }
                std::ifstream f(n, std::ios::binary);
                uint64_t hsh = 1469598103934665603ULL; uint64_t len = 0; char buf[4096];
                while (f) { f.read(buf, sizeof(buf)); auto k = f.gcount(); for (std::streamsize i = 0; i < k; i++) { hsh ^= (unsigned char)buf[i]; hsh *= 1099511628211ULL; } len += (uint64_t)k; }
                items.push_back({ n.substr(path.size()), std::to_string(hsh), len });
            }
            g->ev({ "fs_snapshot", path, items });
            return true;
        }
        g->ev({ "fs", op, path, ec ? 1 : 0 });
        return true;
    }
}
