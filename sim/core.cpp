// Core of the simulator: virtual clock, wrapped rand, logger, hooks, harness operators, the step
// interpreter and the baton scheduler for logical threads.
#include "sim.h"

#include "runtime/d_array.h"
#include "runtime/d_string.h"
#include "runtime/d_scalar.h"
#include "runtime/d_boolean.h"
#include "runtime/d_code.h"
#include "runtime/verif_hooks.h"
#include "opcodes/call_unary.h"
#include "opcodes/call_binary.h"
#include "opcodes/call_nular.h"
#include "runtime/sqfop.h"
#include "operators/ops.h"
#include "operators/ops_hashmap.h"
#include "parser/config/config_parser.hpp"
#include "parser/sqf/sqf_parser.hpp"
#include "parser/preprocessor/default.h"
#include "fileio/default.h"

#include <chrono>
#include <thread>
#include <mutex>
#include <condition_variable>
#include <algorithm>
#include <unistd.h>

using namespace sqf::runtime;
using namespace sqf::types;

// ---------------------------------------------------------------------------------------------
// virtual clock + rand (link-time wraps; see tools/build.py)
// ---------------------------------------------------------------------------------------------
extern "C" std::chrono::system_clock::time_point __wrap__ZNSt6chrono3_V212system_clock3nowEv()
{
    if (!sim::g)
    {
        return std::chrono::system_clock::time_point(std::chrono::nanoseconds(1600000000LL * 1000000000LL));
    }
    auto v = sim::g->clock_ns;
    sim::g->clock_ns += sim::g->per_poll_ns;
    sim::g->polls++;
    return std::chrono::system_clock::time_point(std::chrono::duration_cast<std::chrono::system_clock::duration>(std::chrono::nanoseconds(v)));
}
extern "C" std::chrono::steady_clock::time_point __wrap__ZNSt6chrono3_V212steady_clock3nowEv()
{
    int64_t v = sim::g ? sim::g->clock_ns : 0;
    if (sim::g) { sim::g->clock_ns += sim::g->per_poll_ns; sim::g->polls++; }
    return std::chrono::steady_clock::time_point(std::chrono::nanoseconds(v));
}
extern "C" int __wrap_rand()
{
    if (!sim::g) return 4;
    auto& s = sim::g->rand_state;
    s = s * 6364136223846793005ULL + 1442695040888963407ULL;
    return (int)((s >> 33) & 0x7fffffff);
}

namespace sim
{
    // -----------------------------------------------------------------------------------------
    // base64 (plans carry binary blobs)
    // -----------------------------------------------------------------------------------------
    static const char* B64 = "ABCDEFGHIJKLMNOPQRSTUVWXYZabcdefghijklmnopqrstuvwxyz0123456789+/";
    std::string b64enc(const std::string& in)
    {
        std::string out;
        int val = 0, valb = -6;
        for (unsigned char c : in)
        {
            val = (val << 8) + c; valb += 8;
            while (valb >= 0) { out.push_back(B64[(val >> valb) & 0x3F]); valb -= 6; }
        }
        if (valb > -6) out.push_back(B64[((val << 8) >> (valb + 8)) & 0x3F]);
        while (out.size() % 4) out.push_back('=');
        return out;
    }
    std::string b64dec(const std::string& in)
    {
        std::vector<int> T(256, -1);
        for (int i = 0; i < 64; i++) T[(unsigned char)B64[i]] = i;
        std::string out;
        int val = 0, valb = -8;
        for (unsigned char c : in)
        {
            if (T[c] == -1) break;
            val = (val << 6) + T[c]; valb += 6;
            if (valb >= 0) { out.push_back(char((val >> valb) & 0xFF)); valb -= 8; }
        }
        return out;
    }

    // -----------------------------------------------------------------------------------------
    // Sim helpers
    // -----------------------------------------------------------------------------------------
    void Sim::ev(json&& e)
    {
        if (events.size() >= max_events) { finish_and_exit("max_events"); }
        json a = json::array();
        a.push_back(seq++);
        for (auto& x : e) a.push_back(std::move(x));
        events.push_back(std::move(a));
    }
    void Sim::mon(const std::string& rule, const std::string& culprit, const std::string& detail)
    {
        if (monitor.size() < 50)
        {
            monitor.push_back({ {"rule", rule}, {"culprit", culprit}, {"detail", detail}, {"seq", seq}, {"instr", instr} });
        }
    }
    VM* Sim::vm_by_id(const std::string& id)
    {
        for (auto& v : vms) if (v->id == id) return v.get();
        return nullptr;
    }
    VM* Sim::vm_of(sqf::runtime::runtime& rt)
    {
        auto it = by_rt.find(&rt);
        if (it != by_rt.end()) return it->second;
        auto vm = std::make_unique<VM>();
        vm->id = "auto" + std::to_string(vms.size());
        vm->ord = (int)vms.size();
        vm->rt_raw = &rt;
        VM* raw = vm.get();
        vms.push_back(std::move(vm));
        by_rt[&rt] = raw;
        return raw;
    }
    int Sim::ctx_id(sqf::runtime::runtime& rt, const sqf::runtime::context* raw)
    {
        if (!raw) return -1;
        for (size_t i = ctxs.size(); i-- > 0;)
        {
            if (ctxs[i].second == raw && !ctxs[i].first.expired()) return (int)i;
        }
        // not yet known: find its owner
        for (auto it = rt.context_begin(); it != rt.context_end(); ++it)
        {
            if (it->get() == raw)
            {
                ctxs.emplace_back(std::weak_ptr<context>(*it), raw);
                return (int)ctxs.size() - 1;
            }
        }
        auto act = rt.context_active_as_shared();
        if (act.get() == raw)
        {
            ctxs.emplace_back(std::weak_ptr<context>(act), raw);
            return (int)ctxs.size() - 1;
        }
        return -2;
    }
    void Sim::register_contexts(sqf::runtime::runtime& rt)
    {
        for (auto it = rt.context_begin(); it != rt.context_end(); ++it) { (void)ctx_id(rt, it->get()); }
    }

    // -----------------------------------------------------------------------------------------
    // rendering
    // -----------------------------------------------------------------------------------------
    std::string render(const value& v, int depth)
    {
        if (v.empty()) return "nil";
        if (depth > 10) return "<deep>";
        if (v.is<t_array>())
        {
            auto arr = v.data<sqf::types::d_array>();
            std::string out = "[";
            bool first = true;
            for (auto& e : *arr)
            {
                if (!first) out += ",";
                first = false;
                out += render(e, depth + 1);
            }
            return out + "]";
        }
        if (v.is<t_hashmap>())
        {
            auto hm = v.data<sqf::types::d_hashmap>();
            std::vector<std::string> items;
            for (auto& kv : hm->map()) items.push_back("[" + render(kv.first, depth + 1) + "," + render(kv.second, depth + 1) + "]");
            std::sort(items.begin(), items.end());
            std::string out = "HM{";
            for (size_t i = 0; i < items.size(); i++) { if (i) out += ","; out += items[i]; }
            return out + "}";
        }
        return v.data()->to_string_sqf();
    }

    // -----------------------------------------------------------------------------------------
    // logger
    // -----------------------------------------------------------------------------------------
    void HarnessLogger::log(const LogMessageBase& message)
    {
        if (!g) return;
        std::string path; size_t line = 0, col = 0;
        if (auto rl = dynamic_cast<const logmessage::RuntimeLogMessageBase*>(&message))
        {
            auto loc = rl->location();
            path = loc.path; line = loc.line; col = loc.col;
        }
        int ctx = -1;
        auto vm = g->vm_by_id(vm_id);
        if (vm && vm->rt)
        {
            auto act = vm->rt->context_active_as_shared();
            if (act) ctx = g->ctx_id(*vm->rt, act.get());
        }
        g->ev({ "log", vm_id, (int)message.getLevel(), (uint64_t)message.getErrorCode(), path, (uint64_t)line, (uint64_t)col, message.formatMessage(), ctx, g->instr });
    }

    // -----------------------------------------------------------------------------------------
    // baton scheduler for logical threads
    // -----------------------------------------------------------------------------------------
    namespace
    {
        std::mutex bat_m;
        std::condition_variable bat_cv;
        thread_local int tl_thread = -1;
        std::vector<int> bat_alive;       // 1 while the logical thread has work
        std::vector<int64_t> bat_choices; // schedule: at each yield, index into the runnable set
        size_t bat_pos = 0;
        uint64_t bat_yields = 0;
        uint64_t bat_max_yields = 2000000;

        int pick_next(int cur)
        {
            std::vector<int> runnable;
            for (size_t i = 0; i < bat_alive.size(); i++) if (bat_alive[i]) runnable.push_back((int)i);
            if (runnable.empty()) return -1;
            if (bat_pos < bat_choices.size())
            {
                auto c = bat_choices[bat_pos++];
                if (c < 0) { return (cur >= 0 && bat_alive[cur]) ? cur : runnable[0]; }
                return runnable[(size_t)c % runnable.size()];
            }
            // schedule exhausted: stay on the current thread while it is alive, else lowest index
            if (cur >= 0 && bat_alive[cur]) return cur;
            return runnable[0];
        }
        void wait_for_baton(std::unique_lock<std::mutex>& lk, int me)
        {
            bat_cv.wait(lk, [&] { return g->current_thread == me; });
        }
    }
    void thread_yield(int site)
    {
        if (!g || !g->par_active || tl_thread < 0) return;
        std::unique_lock<std::mutex> lk(bat_m);
        if (++bat_yields > bat_max_yields) { finish_and_exit("max_yields"); }
        int me = tl_thread;
        int nxt = pick_next(me);
        if (nxt != me && nxt >= 0)
        {
            g->ev({ "sw", me, nxt, site, g->instr });
            g->counters["switches"] = g->counters.value("switches", 0) + 1;
            g->current_thread = nxt;
            bat_cv.notify_all();
            wait_for_baton(lk, me);
        }
    }

    // -----------------------------------------------------------------------------------------
    // hooks
    // -----------------------------------------------------------------------------------------
    static int64_t wake_ns(const context& c)
    {
        return std::chrono::duration_cast<std::chrono::nanoseconds>(c.wakeup_timestamp().time_since_epoch()).count();
    }
    static void h_visit(runtime& rt, size_t index)
    {
        auto vm = g->vm_of(rt);
        g->register_contexts(rt);
        if (++g->visits > g->max_visits) { finish_and_exit("max_visits"); }
        auto act = rt.context_active_as_shared();
        int cid = g->ctx_id(rt, act.get());
        bool executed_since = g->instr != g->instr_at_last_visit;
        g->instr_at_last_visit = g->instr;
        if (executed_since) g->idle_visits = 0; else g->idle_visits++;
        size_t n = (size_t)(rt.context_end() - rt.context_begin());
        // idle jump: a whole round of visits executed nothing -> advance to the earliest wake-up
        if (g->idle_jump && g->idle_visits > n)
        {
            int64_t earliest = INT64_MAX;
            bool all_susp = true;
            for (auto it = rt.context_begin(); it != rt.context_end(); ++it)
            {
                if ((*it)->suspended()) earliest = std::min(earliest, wake_ns(**it)); else all_susp = false;
            }
            // time passes continuously: never jump across the run's deadline, stop just behind it
            auto mr = rt.configuration().max_runtime;
            if (mr != std::chrono::milliseconds::zero() && vm->run_start_ns >= 0)
            {
                int64_t deadline = vm->run_start_ns + std::chrono::duration_cast<std::chrono::nanoseconds>(mr).count();
                if (g->clock_ns <= deadline && earliest > deadline + 1000) { earliest = deadline + 1000; g->probe("idle_jump_capped_at_deadline"); }
            }
            if (all_susp && earliest != INT64_MAX && earliest > g->clock_ns)
            {
                g->ev({ "cj", vm->id, g->clock_ns, earliest });
                g->clock_ns = earliest;
                g->clock_jumps++;
                g->idle_visits = 0;
            }
        }
        if (g->obs_visits)
        {
            json ids = json::array();
            for (auto it = rt.context_begin(); it != rt.context_end(); ++it) ids.push_back(g->ctx_id(rt, it->get()));
            g->ev({ "v", vm->id, (uint64_t)index, cid, act->suspended() ? 1 : 0, act->suspended() ? wake_ns(*act) : 0, g->clock_ns, ids });
        }
        thread_yield(100);
    }
    static void h_visit_done(runtime& rt, size_t index, int res)
    {
        auto vm = g->vm_of(rt);
        if (g->obs_visits) g->ev({ "vd", vm->id, (uint64_t)index, res });
    }
    static size_t h_slice_length(runtime& rt, size_t shipped)
    {
        int64_t v = 0;
        if (g->slice_pos < g->slices.size()) v = g->slices[g->slice_pos++];
        else v = g->slice_default;
        if (v <= 0) return shipped;
        return (size_t)v;
    }
    static void h_slice_begin(runtime& rt, size_t budget)
    {
        auto vm = g->vm_of(rt);
        g->register_contexts(rt);
        vm->exec_depth++;
        if (vm->exec_depth > 1) g->mon("S1", "execute_do", "two executors inside execute_do on vm " + vm->id);
        auto act = rt.context_active_as_shared();
        int cid = g->ctx_id(rt, act.get());
        vm->slice_instr = 0;
        vm->last_slice_ctx = cid;
        if (g->obs_slices) g->ev({ "sb", vm->id, cid, (uint64_t)budget, g->clock_ns, act ? (act->suspended() ? 1 : 0) : 0 });
        if (g->obs_stack) stackmon_slice_begin(rt);
    }
    static void h_slice_end(runtime& rt)
    {
        auto vm = g->vm_of(rt);
        vm->exec_depth--;
        auto act = rt.context_active_as_shared();
        if (g->obs_stack) stackmon_slice_end(rt);
        if (g->obs_slices)
        {
            g->ev({ "se", vm->id, vm->last_slice_ctx, vm->slice_instr, g->clock_ns,
                act ? (uint64_t)act->frames_size() : 0, act ? (act->suspended() ? 1 : 0) : 0, act ? (uint64_t)act->values_size() : 0 });
        }
    }
    static void h_before(runtime& rt, instruction& in)
    {
        auto vm = g->vm_of(rt);
        thread_yield(101);
        g->instr++;
        vm->slice_instr++;
        g->clock_ns += g->per_instr_ns;
        if (g->instr > g->max_instr) { finish_and_exit("max_instr"); }
        for (auto& j : g->jumps)
        {
            if (!j.fired && j.after_instr == g->instr)
            {
                j.fired = true;
                g->ev({ "cjf", g->clock_ns, g->clock_ns + j.by_ns });
                g->clock_ns += j.by_ns;
                g->faults_fired["clock_jump"]++;
            }
        }
        if (g->obs_instr)
        {
            auto act = rt.context_active_as_shared();
            auto di = in.diag_info();
            g->ev({ "i", vm->id, g->ctx_id(rt, act.get()), in.to_string(), (uint64_t)di.line, (uint64_t)di.column, (uint64_t)act->frames_size(), (uint64_t)act->values_size() });
        }
        if (g->obs_stack) stackmon_before(rt, in);
    }
    static void h_after(runtime& rt, instruction& in)
    {
        auto vm = g->vm_of(rt);
        for (auto& f : g->faults)
        {
            if (!f.fired && f.kind == "error" && f.after_instr == g->instr && (f.vm.empty() || f.vm == vm->id))
            {
                f.fired = true;
                g->faults_fired["error"]++;
                g->ev({ "fault", "error", vm->id, g->instr, in.to_string() });
                rt.__logmsg(logmessage::runtime::ErrorMessage(in.diag_info(), "INJECTED", "fault@" + std::to_string(g->instr)));
            }
        }
        if (!g->obs_ops.empty())
        {
            std::string_view name;
            if (auto u = dynamic_cast<sqf::opcodes::call_unary*>(&in)) name = u->operator_name();
            else if (auto b = dynamic_cast<sqf::opcodes::call_binary*>(&in)) name = b->operator_name();
            else if (auto n = dynamic_cast<sqf::opcodes::call_nular*>(&in)) name = n->operator_name();
            if (!name.empty() && g->obs_ops.count(std::string(name)))
            {
                auto act = rt.context_active_as_shared();
                std::string top = "<none>";
                if (act && act->values_size() > 0) top = render(act->peek_value());
                g->ev({ "op", vm->id, g->ctx_id(rt, act.get()), std::string(name), top, g->instr, g->clock_ns });
            }
        }
        if (g->obs_stack) stackmon_after(rt, in);
    }
    static void h_frame_done(runtime& rt)
    {
        if (g->obs_stack) stackmon_frame_done(rt);
    }
    static void h_frame_popped(runtime& rt, bool had_value)
    {
        if (g->obs_stack) stackmon_frame_popped(rt, had_value);
    }
    static void h_yield(runtime& rt, int site)
    {
        if (site == verif::cas_start) { g->vm_of(rt)->run_start_ns = g->clock_ns; }
        if (g->obs_sites) g->ev({ "y", tl_thread, g->vm_of(rt)->id, site, g->instr });
        g->probes["site" + std::to_string(site)]++;
        thread_yield(site);
    }
    void install_hooks()
    {
        auto& h = verif::get_hooks();
        h.on_visit = h_visit;
        h.on_visit_done = h_visit_done;
        h.slice_length = h_slice_length;
        h.on_slice_begin = h_slice_begin;
        h.on_slice_end = h_slice_end;
        h.on_instruction_before = h_before;
        h.on_instruction_after = h_after;
        h.on_frame_done = h_frame_done;
        h.on_frame_popped = h_frame_popped;
        h.yield = h_yield;
    }

    // -----------------------------------------------------------------------------------------
    // harness operators
    // -----------------------------------------------------------------------------------------
    void register_harness_ops(runtime& rt)
    {
        using namespace sqf::runtime::sqfop;
        rt.register_sqfop(unary("t__", t_any(), "trace marker", [](runtime& r, value::cref right) -> value {
            auto vm = g->vm_of(r);
            auto act = r.context_active_as_shared();
            g->ev({ "t", vm->id, g->ctx_id(r, act.get()), render(right), g->instr, g->clock_ns });
            return {};
        }));
        rt.register_sqfop(unary("heap__", t_array(), "heap dump marker: [id, number of roots, locals...]", [](runtime& r, value::cref right) -> value {
            auto vm = g->vm_of(r);
            auto act = r.context_active_as_shared();
            auto arr = right.data<sqf::types::d_array>();
            std::string out = "[";
            out += arr->size() > 0 ? render(arr->at(0)) : std::string("nil");
            out += ",\"S\",[";
            int n = arr->size() > 1 ? (int)arr->at(1).data_try<sqf::types::d_scalar, float>(0) : 0;
            const auto& scope = *r.default_value_scope();
            for (int i = 0; i < n; i++)
            {
                if (i) out += ",";
                out += render(scope.at("g" + std::to_string(i)));
            }
            out += "],[";
            for (size_t i = 2; i < arr->size(); i++)
            {
                if (i > 2) out += ",";
                out += render(arr->at(i));
            }
            out += "]]";
            g->ev({ "t", vm->id, g->ctx_id(r, act.get()), out, g->instr, g->clock_ns });
            return {};
        }));
        rt.register_sqfop(nular("fault__", "raises an error-level diagnostic", [](runtime& r) -> value {
            g->faults_fired["fault_op"]++;
            r.__logmsg(logmessage::runtime::ErrorMessage(r.context_active().current_frame().diag_info_from_position(), "FAULTOP", "fault__"));
            return {};
        }));
        rt.register_sqfop(unary("fault__", t_any(), "raises an error-level diagnostic carrying a tag", [](runtime& r, value::cref right) -> value {
            g->faults_fired["fault_op"]++;
            r.__logmsg(logmessage::runtime::ErrorMessage(r.context_active().current_frame().diag_info_from_position(), "FAULTOP", render(right)));
            return {};
        }));
        rt.register_sqfop(nular("now__", "virtual clock in ms", [](runtime& r) -> value {
            return (float)((g->clock_ns / 1000000) % 100000000);
        }));
        rt.register_sqfop(nular("instr__", "dynamic instruction counter", [](runtime& r) -> value {
            return (float)g->instr;
        }));
    }

    // -----------------------------------------------------------------------------------------
    // steps
    // -----------------------------------------------------------------------------------------
    static runtime::action action_by_name(const std::string& n)
    {
        if (n == "start") return runtime::action::start;
        if (n == "stop") return runtime::action::stop;
        if (n == "abort") return runtime::action::abort;
        if (n == "assembly_step") return runtime::action::assembly_step;
        if (n == "line_step") return runtime::action::line_step;
        if (n == "leave_scope") return runtime::action::leave_scope;
        if (n == "reset_run_atomic") return runtime::action::reset_run_atomic;
        return runtime::action::invalid;
    }

    std::unique_ptr<VM> g_template;
    static const int64_t EPOCH_NS = 1600000000LL * 1000000000LL;

    static std::unique_ptr<VM> construct_vm(const std::string& id, const std::string& ops, const std::string& fio)
    {
        auto vm = std::make_unique<VM>();
        vm->id = id;
        vm->logger = std::make_unique<HarnessLogger>(vm->id);
        runtime::runtime_conf conf;
        conf.print_context_work_to_log_on_exit = true;
        vm->rt = std::make_unique<runtime>(*vm->logger, conf);
        auto& rt = *vm->rt;
        if (fio == "default") rt.fileio(std::make_unique<sqf::fileio::impl_default>(*vm->logger));
        rt.parser_config(std::make_unique<sqf::parser::config::parser>(*vm->logger));
        rt.parser_preprocessor(std::make_unique<sqf::parser::preprocessor::impl_default>(*vm->logger));
        rt.parser_sqf(std::make_unique<sqf::parser::sqf::parser>(*vm->logger));
        if (ops == "full") sqf::operators::ops(rt);
        register_harness_ops(rt);
        return vm;
    }
    void build_template()
    {
        // Built once in the parent before any fork: children adopt it copy-on-write instead of registering
        // ~2500 operators again. Its timestamps are the epoch the virtual clock starts at.
        g_template = construct_vm("template", "full", "default");
    }

    static void step_vm_new(const json& st)
    {
        std::string id = st.value("vm", std::string("vm") + std::to_string(g->vms.size()));
        std::string fio = st.value("fileio", std::string("default"));
        std::string ops = st.value("ops", std::string("full"));
        std::unique_ptr<VM> vm;
        if (g_template && ops == "full" && fio == "default" && g->clock_ns == EPOCH_NS && g->polls == 0 && st.value("template", true))
        {
            vm = std::move(g_template);
            vm->id = id;
            vm->logger->vm_id = id;
            g->probe("template_vm");
        }
        else
        {
            vm = construct_vm(id, ops, fio);
        }
        vm->ord = (int)g->vms.size();
        auto& rt = *vm->rt;
        auto& conf = rt.configuration();
        if (st.contains("conf"))
        {
            auto& c = st["conf"];
            if (c.contains("max_runtime_ms")) conf.max_runtime = std::chrono::milliseconds(c["max_runtime_ms"].get<int64_t>());
            if (c.contains("max_loop")) conf.max_loop_iterations_in_unscheduled = c["max_loop"].get<size_t>();
            if (c.contains("print_work")) conf.print_context_work_to_log_on_exit = c["print_work"].get<bool>();
            if (c.contains("disable_sleep")) conf.disable_sleep = c["disable_sleep"].get<bool>();
            if (c.contains("classname_check")) conf.enable_classname_check = c["classname_check"].get<bool>();
        }
        if (st.contains("mappings"))
        {
            for (auto& m : st["mappings"]) rt.fileio().add_mapping(m[0].get<std::string>(), m[1].get<std::string>());
        }
        if (st.contains("defines"))
        {
            for (auto& d : st["defines"])
            {
                if (d.is_array()) rt.parser_preprocessor().push_back({ d[0].get<std::string>(), d[1].get<std::string>() });
                else rt.parser_preprocessor().push_back({ d.get<std::string>() });
            }
        }
        g->by_rt[vm->rt.get()] = vm.get();
        g->ev({ "vm_new", vm->id, g->clock_ns });
        g->vms.push_back(std::move(vm));
    }

    static void step_load(const json& st)
    {
        auto vm = g->vm_by_id(st.at("vm").get<std::string>());
        auto& rt = *vm->rt;
        std::string text = st.at("text").get<std::string>();
        std::string name = st.value("name", std::string("main.sqf"));
        bool sched = st.value("sched", false);
        bool pre = st.value("preprocess", true);
        std::optional<std::string> pp = text;
        if (pre) pp = rt.parser_preprocessor().preprocess(rt, text, { name, {} });
        if (!pp.has_value()) { g->ev({ "load", vm->id, "preprocess_failed", -1 }); return; }
        auto set = rt.parser_sqf().parse(rt, *pp, { name, {} });
        if (!set.has_value()) { g->ev({ "load", vm->id, "parse_failed", -1 }); return; }
        auto ctx = rt.context_create().lock();
        frame f(rt.default_value_scope(), *set);
        if (sched) { ctx->can_suspend(true); ctx->weak_error_handling(true); }
        ctx->push_frame(f);
        ctx->name(name);
        g->ev({ "load", vm->id, "ok", g->ctx_id(rt, ctx.get()), (uint64_t)set->size() });
    }

    static int64_t live_contexts(runtime& rt)
    {
        int64_t n = 0;
        for (auto it = rt.context_begin(); it != rt.context_end(); ++it) if (!(*it)->empty()) n++;
        return n;
    }
    static void do_action(VM* vm, const std::string& name, int thread)
    {
        auto& rt = *vm->rt;
        auto act0 = rt.context_active_as_shared();
        g->ev({ "act_begin", thread, vm->id, name, (int)rt.runtime_state(), (uint64_t)(rt.context_end() - rt.context_begin()), g->instr, g->clock_ns,
            act0 ? (int64_t)act0->frames_size() : (int64_t)-1 });
        fprintf(stderr, "@action %s\n", name.c_str());
        int res;
        std::string exc;
        try
        {
            res = (int)rt.execute(action_by_name(name));
        }
        catch (const std::exception& e)
        {
            res = -99;
            exc = e.what();
        }
        catch (...)
        {
            res = -99;
            exc = "unknown";
        }
        vm->last_result = res;
        g->ev({ "act", thread, vm->id, name, res, (int)rt.runtime_state(), (uint64_t)(rt.context_end() - rt.context_begin()),
            rt.__runtime_error() ? 1 : 0, (uint64_t)rt.log_messages.size(), g->instr, g->clock_ns, exc,
            rt.context_active_as_shared() ? (int64_t)rt.context_active_as_shared()->frames_size() : (int64_t)-1, live_contexts(rt) });
    }

    static void run_steps(const json& steps, int thread);

    static void step_par(const json& st)
    {
        auto& threads = st.at("threads");
        size_t n = threads.size();
        bat_alive.assign(n, 1);
        bat_choices.clear();
        if (st.contains("yields")) for (auto& y : st["yields"]) bat_choices.push_back(y.get<int64_t>());
        bat_pos = 0;
        bat_yields = 0;
        if (st.contains("max_yields")) bat_max_yields = st["max_yields"].get<uint64_t>();
        g->par_active = true;
        g->current_thread = -1;
        std::vector<std::thread> ths;
        for (size_t i = 0; i < n; i++)
        {
            ths.emplace_back([i, &threads]() {
                tl_thread = (int)i;
                {
                    std::unique_lock<std::mutex> lk(bat_m);
                    wait_for_baton(lk, (int)i);
                }
                run_steps(threads[i], (int)i);
                std::unique_lock<std::mutex> lk(bat_m);
                bat_alive[i] = 0;
                int nxt = pick_next(-1);
                g->ev({ "th_done", (int)i, nxt });
                g->current_thread = nxt;
                bat_cv.notify_all();
            });
        }
        {
            std::unique_lock<std::mutex> lk(bat_m);
            int first = pick_next(-1);
            g->ev({ "par_begin", (uint64_t)n, first });
            g->current_thread = first;
            bat_cv.notify_all();
        }
        for (auto& t : ths) t.join();
        g->par_active = false;
        g->ev({ "par_end" });
    }

    static void run_step(const json& st, int thread)
    {
        std::string d = st.at("do").get<std::string>();
        if (d == "vm_new") step_vm_new(st);
        else if (d == "vm_del")
        {
            auto id = st.at("vm").get<std::string>();
            for (auto it = g->vms.begin(); it != g->vms.end(); ++it)
            {
                if ((*it)->id == id)
                {
                    g->by_rt.erase((*it)->rt.get());
                    (*it)->rt.reset();
                    g->vms.erase(it);
                    break;
                }
            }
            g->ev({ "vm_del", id });
        }
        else if (d == "load") step_load(st);
        else if (d == "action") do_action(g->vm_by_id(st.at("vm").get<std::string>()), st.at("name").get<std::string>(), thread);
        else if (d == "action_if_failed")
        {
            // what an embedder does after a failed run (cli.cpp / sqfvm.cpp): abort when start did not end ok/empty
            auto vm = g->vm_by_id(st.at("vm").get<std::string>());
            if (vm->last_result == -2 || vm->last_result == 1 || vm->last_result == 2) do_action(vm, st.at("name").get<std::string>(), thread);
        }
        else if (d == "clock_advance")
        {
            g->clock_ns += st.at("ns").get<int64_t>();
            g->ev({ "clock", g->clock_ns });
        }
        else if (d == "conf")
        {
            auto vm = g->vm_by_id(st.at("vm").get<std::string>());
            if (st.contains("max_runtime_ms")) vm->rt->configuration().max_runtime = std::chrono::milliseconds(st["max_runtime_ms"].get<int64_t>());
            if (st.contains("max_loop")) vm->rt->configuration().max_loop_iterations_in_unscheduled = st["max_loop"].get<size_t>();
        }
        else if (d == "state")
        {
            auto vm = g->vm_by_id(st.at("vm").get<std::string>());
            auto& rt = *vm->rt;
            g->ev({ "state", vm->id, (int)rt.runtime_state(), (uint64_t)(rt.context_end() - rt.context_begin()), rt.__runtime_error() ? 1 : 0, (uint64_t)rt.log_messages.size() });
        }
        else if (d == "par") step_par(st);
        else if (d == "mark") g->ev({ "mark", st.value("idx", 0) });
        else if (d == "yield") thread_yield(102);
        else if (step_api(st)) {}
        else if (step_cli(st)) {}
        else if (step_parse(st)) {}
        else if (step_fs(st)) {}
        else if (step_pbo(st)) {}
        else
        {
            g->ev({ "bad_step", d });
        }
    }

    static void run_steps(const json& steps, int thread)
    {
        int idx = 0;
        for (auto& st : steps)
        {
            if (thread >= 0) thread_yield(103);
            fprintf(stderr, "@step t%d #%d %s\n", thread, idx++, st.value("do", std::string("?")).c_str());
            run_step(st, thread);
        }
    }

    void run_plan()
    {
        auto& p = g->plan;
        if (p.contains("clock"))
        {
            auto& c = p["clock"];
            if (c.contains("per_instr_ns")) g->per_instr_ns = c["per_instr_ns"].get<int64_t>();
            if (c.contains("per_poll_ns")) g->per_poll_ns = c["per_poll_ns"].get<int64_t>();
            if (c.contains("idle_jump")) g->idle_jump = c["idle_jump"].get<bool>();
            if (c.contains("jumps")) for (auto& j : c["jumps"]) g->jumps.push_back({ j["after_instr"].get<uint64_t>(), j["by_ns"].get<int64_t>() });
        }
        if (p.contains("sched"))
        {
            auto& s = p["sched"];
            if (s.contains("slice_default")) g->slice_default = s["slice_default"].get<int64_t>();
            if (s.contains("slices")) for (auto& x : s["slices"]) g->slices.push_back(x.get<int64_t>());
        }
        if (p.contains("faults"))
        {
            for (auto& f : p["faults"])
            {
                if (f.value("kind", std::string()) == "error")
                {
                    g->faults.push_back({ "error", f.at("after_instr").get<uint64_t>(), f.value("vm", std::string()) });
                }
            }
        }
        if (p.contains("limits"))
        {
            auto& l = p["limits"];
            if (l.contains("max_instr")) g->max_instr = l["max_instr"].get<uint64_t>();
            if (l.contains("max_events")) g->max_events = l["max_events"].get<uint64_t>();
            if (l.contains("max_visits")) g->max_visits = l["max_visits"].get<uint64_t>();
        }
        if (p.contains("observe"))
        {
            auto& o = p["observe"];
            g->obs_instr = o.value("instr", false);
            g->obs_stack = o.value("stack", false);
            g->obs_visits = o.value("visits", true);
            g->obs_slices = o.value("slices", true);
            g->obs_sites = o.value("sites", false);
            if (o.contains("ops")) for (auto& x : o["ops"]) g->obs_ops.insert(x.get<std::string>());
        }
        if (p.contains("rand_seed")) g->rand_state = p["rand_seed"].get<uint64_t>() * 2 + 1;
        install_hooks();
        run_steps(p.at("steps"), -1);
    }
}
