// simvm — deterministic executor. Reads one PLAN (JSON) per line on stdin, executes it in a forked
// child against the real SQF-VM objects (hooks on) and answers with one line on the protocol fd:
//   H <history json>      the child completed (possibly truncated by a budget)
//   C <crash json>        the child died (signal, sanitizer exit code, watchdog)
// Nothing in here draws randomness or reads a real clock for the system under test.
#include "sim.h"

#include <unistd.h>
#include <signal.h>
#include <fcntl.h>
#include <sys/wait.h>
#include <sys/mman.h>
#include <sys/stat.h>
#include <sys/resource.h>
#include <cstring>
#include <iostream>
#include <sstream>

extern "C" void __sanitizer_print_stack_trace(void);

extern "C" __attribute__((used)) const char* __asan_default_options()
{
    return "exitcode=77:detect_leaks=0:max_allocation_size_mb=768:allocator_may_return_null=0:"
           "handle_abort=1:abort_on_error=0:detect_stack_use_after_return=0:print_summary=1:malloc_context_size=8";
}
extern "C" __attribute__((used)) const char* __ubsan_default_options()
{
    return "print_stacktrace=1:halt_on_error=1:exitcode=77";
}

extern const char g_GIT_SHA1[];
const char g_GIT_SHA1[] = "verif";
int console_width() { return 8; }
char* const copy_str(const std::string& str)
{
    auto dest = new char[str.length() + 1];
    std::memcpy(dest, str.c_str(), str.length() + 1);
    return dest;
}

namespace sim
{
    Sim* g = nullptr;
    static int g_out_fd = -1; // where the child writes its history

    static void write_all(int fd, const std::string& s)
    {
        size_t off = 0;
        while (off < s.size())
        {
            ssize_t n = ::write(fd, s.data() + off, s.size() - off);
            if (n < 0)
            {
                if (errno == EINTR) continue;
                break;
            }
            off += (size_t)n;
        }
    }

    static json final_state()
    {
        json fin = json::object();
        for (auto& vm : g->vms)
        {
            sqf::runtime::runtime* rt = vm->rt ? vm->rt.get() : vm->rt_raw;
            if (!rt) continue;
            json j;
            j["state"] = (int)rt->runtime_state();
            j["contexts"] = (int)(rt->context_end() - rt->context_begin());
            j["runtime_error"] = rt->__runtime_error();
            j["log_messages"] = (int)rt->log_messages.size();
            fin[vm->id] = j;
        }
        return fin;
    }

    [[noreturn]] void finish_and_exit(const char* truncated)
    {
        json h;
        h["events"] = std::move(g->events);
        h["monitor"] = std::move(g->monitor);
        json fin;
        try { fin = final_state(); } catch (...) {}
        h["final"] = fin;
        json c = g->counters;
        c["instr"] = g->instr;
        c["visits"] = g->visits;
        c["polls"] = g->polls;
        c["clock_jumps"] = g->clock_jumps;
        c["clock_end_ns"] = g->clock_ns;
        json ff = json::object();
        for (auto& kv : g->faults_fired) ff[kv.first] = kv.second;
        c["faults_fired"] = ff;
        json pp = json::object();
        for (auto& kv : g->probes) pp[kv.first] = kv.second;
        c["probes"] = pp;
        h["counters"] = c;
        if (truncated) h["truncated"] = truncated; else h["truncated"] = nullptr;
        std::string s = h.dump(-1, ' ', false, json::error_handler_t::replace);
        s.push_back('\n');
        write_all(g_out_fd, s);
        _exit(0);
    }

    static void on_alarm(int)
    {
        static const char msg[] = "\n@@WATCHDOG\n";
        (void)!::write(2, msg, sizeof(msg) - 1);
        __sanitizer_print_stack_trace();
        _exit(98);
    }

    static void child_main(const std::string& line, int out_fd, int err_fd)
    {
        g_out_fd = out_fd;
        ::dup2(err_fd, 2);
        int devnull = ::open("/dev/null", O_WRONLY);
        if (devnull >= 0) { ::dup2(devnull, 1); }
        int devnull_in = ::open("/dev/null", O_RDONLY);
        if (devnull_in >= 0) { ::dup2(devnull_in, 0); }
        Sim s;
        g = &s;
        try
        {
            s.plan = json::parse(line);
        }
        catch (const std::exception& e)
        {
            std::string msg = std::string("{\"error\":\"bad plan: ") + "\"}\n";
            write_all(out_fd, msg);
            _exit(3);
        }
        int wd = 20;
        if (s.plan.contains("limits") && s.plan["limits"].contains("watchdog_s")) wd = s.plan["limits"]["watchdog_s"].get<int>();
        struct sigaction sa;
        memset(&sa, 0, sizeof(sa));
        sa.sa_handler = on_alarm;
        sigaction(SIGALRM, &sa, nullptr);
        alarm((unsigned)wd);
        std::set_terminate([]() {
            static const char msg[] = "\n@@TERMINATE uncaught exception\n";
            (void)!::write(2, msg, sizeof(msg) - 1);
            __sanitizer_print_stack_trace();
            _exit(97);
        });
        run_plan();
        finish_and_exit(nullptr);
    }

    static std::string read_fd_all(int fd)
    {
        std::string out;
        char buf[65536];
        while (true)
        {
            ssize_t n = ::read(fd, buf, sizeof(buf));
            if (n < 0) { if (errno == EINTR) continue; break; }
            if (n == 0) break;
            out.append(buf, (size_t)n);
        }
        return out;
    }
}

int main(int argc, char** argv)
{
    // protocol fd: a private duplicate of stdout, so that nothing printed by the SUT can corrupt it
    int proto = ::dup(1);
    bool nofork = false, notemplate = false;
    for (int i = 1; i < argc; i++)
    {
        if (std::string(argv[i]) == "--nofork") nofork = true;
        if (std::string(argv[i]) == "--notemplate") notemplate = true;
    }
    if (!notemplate) sim::build_template();
    signal(SIGPIPE, SIG_IGN);
    {
        // Sanitizer frames are several times larger than shipped ones: give recursion that is proportional to the
        // nesting depth of the input (<= 200 in generated inputs) room, so that only unbounded recursion overflows.
        struct rlimit rl;
        if (getrlimit(RLIMIT_STACK, &rl) == 0)
        {
            rlim_t want = 512UL * 1024 * 1024;
            if (rl.rlim_max != RLIM_INFINITY && want > rl.rlim_max) want = rl.rlim_max;
            if (rl.rlim_cur == RLIM_INFINITY || rl.rlim_cur < want) { rl.rlim_cur = want; setrlimit(RLIMIT_STACK, &rl); }
        }
    }
    std::string line;
    while (std::getline(std::cin, line))
    {
        if (line.empty()) continue;
        if (nofork)
        {
            int errfd = ::dup(2);
            sim::child_main(line, proto, errfd);
        }
        int pfd[2];
        if (::pipe(pfd) != 0) { perror("pipe"); return 4; }
        int efd = ::memfd_create("simvm-stderr", 0);
        if (efd < 0) { perror("memfd_create"); return 4; }
        pid_t pid = ::fork();
        if (pid < 0) { perror("fork"); return 4; }
        if (pid == 0)
        {
            ::close(pfd[0]);
            sim::child_main(line, pfd[1], efd);
            _exit(0);
        }
        ::close(pfd[1]);
        std::string hist = sim::read_fd_all(pfd[0]);
        ::close(pfd[0]);
        int status = 0;
        while (::waitpid(pid, &status, 0) < 0 && errno == EINTR) {}
        bool ok = WIFEXITED(status) && WEXITSTATUS(status) == 0 && !hist.empty() && hist.back() == '\n';
        std::string out;
        if (ok)
        {
            out = "H " + hist;
        }
        else
        {
            ::lseek(efd, 0, SEEK_SET);
            std::string err = sim::read_fd_all(efd);
            if (err.size() > 24000) err = err.substr(0, 16000) + "\n...[cut]...\n" + err.substr(err.size() - 8000);
            json c;
            c["exit"] = WIFEXITED(status) ? WEXITSTATUS(status) : -1;
            c["signal"] = WIFSIGNALED(status) ? WTERMSIG(status) : 0;
            c["stderr"] = err;
            c["partial"] = hist.size();
            out = "C " + c.dump(-1, ' ', false, json::error_handler_t::replace) + "\n";
        }
        ::close(efd);
        sim::write_all(proto, out);
    }
    return 0;
}
